/* Run-length codec: /repo/src/varintRLE.c.
 *   M1  varintRLEDecodeRun (two tagged varints), varintRLEGetCount, varintRLEMaxSize
 *   M2  varintRLEEncode never exceeds varintRLEMaxSize(count) (C03, any count);
 *       varintRLEDecode / varintRLEDecodeWithHeader write at most maxCount elements for ARBITRARY input bytes (C13);
 *       varintRLEGetRunCount stays inside [src, src + encodedSize) for arbitrary contents (C14)
 *   M3  round trip with and without header, random access, exact size predictor, metadata (C02, C03, C16), RLE_N elements */
#ifdef RLE_FRAME_GRADE
#define VERIF_NO_TAGGEDGET64_CONTRACT 1
#endif
#include "callee_scalar.h"
#include "varintTagged.h"
#include "varintRLE.h"
#ifndef RLE_MAXCOUNT
#define RLE_MAXCOUNT (1ULL << 32)
#endif
#ifndef RLE_N
#define RLE_N 3
#endif
#define M_TAGGED_LEN(v) ((v) <= 240 ? 1u : (v) <= 2287 ? 2u : (v) <= 67823 ? 3u : (v) <= 16777215ULL ? 4u : (v) <= 4294967295ULL ? 5u \
                       : (v) <= 1099511627775ULL ? 6u : (v) <= 281474976710655ULL ? 7u : (v) <= 72057594037927935ULL ? 8u : 9u)

size_t g_srcLen;   /* ghost: size of the (arbitrary) input object of the capacity jobs */
#ifndef VERIF_NATIVE
/* well-formed run: exactly the announced bytes of both varints are readable */
size_t varintRLEDecodeRun(const uint8_t *src, size_t *runLength, uint64_t *value)
    __CPROVER_requires(__CPROVER_r_ok(src, 1) && __CPROVER_r_ok(src, spec_tagged_announced(src[0]) + 1) &&
                       __CPROVER_r_ok(src, spec_tagged_announced(src[0]) + spec_tagged_announced(src[spec_tagged_announced(src[0])])))
    __CPROVER_requires(__CPROVER_w_ok(runLength, sizeof(size_t)) && __CPROVER_w_ok(value, sizeof(uint64_t)))
    __CPROVER_assigns(*runLength, *value)
    __CPROVER_ensures(RET == spec_tagged_announced(src[0]) + spec_tagged_announced(src[spec_tagged_announced(src[0])]))
    __CPROVER_ensures(*runLength == spec_tagged_decode(src) && *value == spec_tagged_decode(src + spec_tagged_announced(src[0])));

size_t varintRLEGetCount(const uint8_t *src)
    __CPROVER_requires(__CPROVER_r_ok(src, 1) && __CPROVER_r_ok(src, spec_tagged_announced(src[0])))
    __CPROVER_assigns()
    __CPROVER_ensures(RET == spec_tagged_decode(src));

/* C03: destination of exactly varintRLEMaxSize(count) == 10 * count bytes */
size_t varintRLEEncode(uint8_t *dst, const uint64_t *values, size_t count, varintRLEMeta *meta)
    __CPROVER_requires(count >= 1 && count <= RLE_MAXCOUNT)
    __CPROVER_requires(FRESH(values, count * sizeof(uint64_t)) && FRESH(meta, sizeof(*meta)))
    __CPROVER_requires(FRESH(dst, count * 10))
    __CPROVER_assigns(__CPROVER_object_whole(dst), *meta)
    __CPROVER_ensures(RET >= 2 && RET <= count * 10)
    __CPROVER_ensures(meta->count == count && meta->encodedSize == RET && meta->runCount >= 1 && meta->runCount <= count)
    __CPROVER_ensures(2 * meta->runCount <= RET && RET <= 18 * meta->runCount);

/* C13: arbitrary input, output object of exactly maxCount elements */
#define RLE_DECODER_CONTRACT(fn)                                                             \
    size_t fn(const uint8_t *src, uint64_t *values, size_t maxCount)                         \
        __CPROVER_requires(g_srcLen >= 1 && g_srcLen <= RLE_MAXCOUNT && FRESH(src, g_srcLen)) /* any bytes, any length */ \
        __CPROVER_requires(maxCount <= RLE_MAXCOUNT && FRESH(values, maxCount * sizeof(uint64_t))) \
        __CPROVER_assigns(__CPROVER_object_upto(values, maxCount * sizeof(uint64_t)))        \
        __CPROVER_ensures(RET <= maxCount);
RLE_DECODER_CONTRACT(varintRLEDecode)
RLE_DECODER_CONTRACT(varintRLEDecodeWithHeader)

/* C14: arbitrary bytes in an object of exactly encodedSize bytes */
size_t varintRLEGetRunCount(const uint8_t *src, size_t encodedSize)
    __CPROVER_requires(encodedSize <= RLE_MAXCOUNT && FRESH(src, encodedSize))
    __CPROVER_assigns()
    __CPROVER_ensures(2 * RET <= encodedSize);   /* every counted run lies completely inside the input */

#endif

#include "varintTagged.c"
#include "varintExternal.c"
#include "varintRLE.c"

#ifndef VERIF_NATIVE
size_t w_rleMaxSize(size_t count)
    __CPROVER_requires(count <= RLE_MAXCOUNT) __CPROVER_assigns() __CPROVER_ensures(RET == 10 * count)
{ return varintRLEMaxSize(count); }
void H_rleMaxSize(void) { size_t c; w_rleMaxSize(c); CANARY(); }

void H_rleDecodeRun(void) {
    unsigned a, b; __CPROVER_assume(a >= 1 && a <= 9 && b >= 1 && b <= 9);
    uint8_t *src = malloc(a + b); __CPROVER_assume(src != NULL);
    __CPROVER_assume(spec_tagged_announced(src[0]) == a && spec_tagged_announced(src[a]) == b);
    size_t rl; uint64_t v;
    varintRLEDecodeRun(src, &rl, &v); CANARY();
}
void H_rleGetCount(void) {
    unsigned a; __CPROVER_assume(a >= 1 && a <= 9);
    uint8_t *src = malloc(a); __CPROVER_assume(src != NULL); __CPROVER_assume(spec_tagged_announced(src[0]) == a);
    varintRLEGetCount(src); CANARY();
}
void H_rleEncode(void) { uint8_t *dst; uint64_t *v; size_t c; varintRLEMeta *m; varintRLEEncode(dst, v, c, m); CANARY(); }
void H_rleDecode(void) { size_t sl; g_srcLen = sl; uint8_t *src; uint64_t *v; size_t mc; varintRLEDecode(src, v, mc); CANARY(); }
void H_rleDecodeWithHeader(void) { size_t sl; g_srcLen = sl; uint8_t *src; uint64_t *v; size_t mc; varintRLEDecodeWithHeader(src, v, mc); CANARY(); }
void H_rleGetRunCount(void) { uint8_t *src; size_t n; varintRLEGetRunCount(src, n); CANARY(); }

/* ---- M3: bounded composition on the real functions ---- */
void H_rleRoundTrip(void) {
    size_t count; __CPROVER_assume(count >= 1 && count <= RLE_N);
    uint64_t v[RLE_N], out[RLE_N + 1]; size_t k; __CPROVER_assume(k < count);
    out[RLE_N] = 0x5a5a5a5a5a5a5a5aULL;
    uint8_t buf[10 * RLE_N + 1]; buf[10 * RLE_N] = 0x5a;
    varintRLEMeta am, em; _Bool withMeta;
    bool beneficial = varintRLEAnalyze(v, count, &am);
    size_t predicted = varintRLESize(v, count);
    size_t n = varintRLEEncode(buf, v, count, withMeta ? &em : NULL);
    __CPROVER_assert(n <= varintRLEMaxSize(count) && buf[10 * RLE_N] == 0x5a, "RLE: size within varintRLEMaxSize");
    __CPROVER_assert(n == predicted && am.encodedSize == n, "RLE: varintRLESize / Analyze predict the size exactly");
    __CPROVER_assert(beneficial == (n < count * 8) && varintRLEIsBeneficial(v, count) == beneficial, "RLE: beneficial flag");
    __CPROVER_assert(am.count == count && am.runCount >= 1 && am.runCount <= count, "RLE: analysis metadata");
    __CPROVER_assert(!withMeta || (em.count == count && em.encodedSize == n && em.runCount == am.runCount), "RLE: encoder metadata");
    __CPROVER_assert(varintRLEGetRunCount(buf, n) == am.runCount, "RLE: run count read back from the stream");
    size_t d = varintRLEDecode(buf, out, count);
    __CPROVER_assert(d == count && out[k] == v[k] && out[RLE_N] == 0x5a5a5a5a5a5a5a5aULL, "RLE: round trip");
    __CPROVER_assert(varintRLEGetAt(buf, k) == v[k], "RLE: random access agrees with the decoder");
    CANARY();
}
void H_rleRoundTripHeader(void) {
    size_t count; __CPROVER_assume(count >= 1 && count <= RLE_N);
    uint64_t v[RLE_N], out[RLE_N + 1]; size_t k; __CPROVER_assume(k < count);
    size_t cap; __CPROVER_assume(cap <= RLE_N);
    out[RLE_N] = 0x5a5a5a5a5a5a5a5aULL;
    uint8_t buf[1 + 10 * RLE_N + 1]; buf[1 + 10 * RLE_N] = 0x5a;
    varintRLEMeta em;
    size_t n = varintRLEEncodeWithHeader(buf, v, count, &em);
    __CPROVER_assert(n <= 1 + varintRLEMaxSize(count) && n == 1 + varintRLESize(v, count) && buf[1 + 10 * RLE_N] == 0x5a, "RLE header form: size");
    __CPROVER_assert(em.count == count && em.encodedSize == n && varintRLEGetCount(buf) == count, "RLE header form: metadata and stored count");
    size_t d = varintRLEDecodeWithHeader(buf, out, cap);
    if (cap < count) __CPROVER_assert(d == 0, "RLE header form: too small a capacity is reported as 0");
    else __CPROVER_assert(d == count && out[k] == v[k], "RLE header form: round trip");
    __CPROVER_assert(out[RLE_N] == 0x5a5a5a5a5a5a5a5aULL, "RLE header form: nothing beyond the output array");
    CANARY();
}
/* ---- M3: capacity of the two decoders on ARBITRARY input bytes (bounded in maxCount only).
 * The unbounded loop-contract route is blocked by CBMC 6.11: with nested loops, a local of the outer loop body that
 * is read in the inner loop (`value`) is reported "not assignable" by both contract pipelines (30-line repro in DESIGN). */
#ifndef RLE_CAPN
#define RLE_CAPN 3
#endif
void H_rleDecodeCapacity(void) {
    size_t cap; __CPROVER_assume(cap <= RLE_CAPN);
    uint8_t src[18 * (RLE_CAPN + 1) + 9];           /* arbitrary bytes; at most cap+1 runs are ever parsed */
    uint64_t out[RLE_CAPN + 1]; uint64_t before[RLE_CAPN + 1]; size_t g; __CPROVER_assume(g <= RLE_CAPN);
    for (unsigned i = 0; i <= RLE_CAPN; i++) before[i] = out[i];
    size_t d = varintRLEDecode(src, out, cap);
    __CPROVER_assert(d <= cap, "RLE capacity: returned count within maxCount");
    __CPROVER_assert(g < cap || out[g] == before[g], "RLE capacity: no element at or beyond maxCount is modified");
    CANARY();
}
void H_rleEmpty(void) {
    uint8_t b[2] = {0x5a, 0x5a}; uint64_t v[1]; varintRLEMeta m;
    __CPROVER_assert(varintRLEEncode(b, v, 0, &m) == 0 && b[0] == 0x5a && m.count == 0 && m.encodedSize == 0 && m.runCount == 0, "RLE: empty input writes nothing");
    __CPROVER_assert(varintRLESize(v, 0) == 0 && varintRLEMaxSize(0) == 0, "RLE: empty input sizes");
    CANARY();
}
#endif
