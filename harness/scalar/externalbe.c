/* External big-endian varints: /repo/src/varintExternalBigEndian.c + header macros */
#include "cmacros.h"
#include "spec_scalar.h"
#include "varint.h"
#include "varintExternalBigEndian.h"

uint64_t g_v; /* ghost: stored value */
unsigned g_n; /* ghost: stored width (>= minimal, <= 8) */

#define E_OKW(x, w) ((w) >= 1 && (w) <= 8 && (w) >= spec_ext_len(x))
#define E_BYTEW(x, w, k) spec_extbe_byte_w((x), (w), (k))
#define E_GOK (g_n >= 1 && g_n <= 8 && g_n >= spec_ext_len(g_v))
#define E_GBYTE(v, k) spec_extbe_byte_w((v), g_n, (k))

C_PUT(varintExternalBigEndianPut, varintWidth, void, uint64_t, spec_ext_len, spec_extbe_byte, 1, 8, DOM_ANY)
C_PUTW_VOID(varintExternalBigEndianPutFixedWidth, void, E_OKW, E_BYTEW)

#define P_EXTGET_CLAUSES                                                               \
    __CPROVER_requires(E_GOK && encoding == g_n)                                       \
    REQUIRES_BYTES(((const uint8_t *)z), g_n, E_GBYTE, g_v)                            \
    __CPROVER_assigns()                                                                \
    __CPROVER_ensures(RET == g_v)
#ifndef VERIF_NATIVE
#define C_EXTGET(fn) uint64_t fn(const void *z, varintWidth encoding) P_EXTGET_CLAUSES;
#define W_EXTGET(fn, ...) uint64_t fn(const void *z, varintWidth encoding) P_EXTGET_CLAUSES __VA_ARGS__
#define H_EXTGET(hn, fn) void hn(void) { SET_GHOSTS(); void *z; varintWidth encoding; fn(z, encoding); CANARY(); }
#else
#define C_EXTGET(fn)
#define W_EXTGET(fn, ...) uint64_t fn(const void *z, varintWidth encoding) __VA_ARGS__
#define H_EXTGET(hn, fn)                                                               \
    void hn(void) {                                                                    \
        RP_GHOSTS();                                                                   \
        if (!(E_GOK)) { printf("REPLAY: input outside the precondition\n"); return; }  \
        uint8_t *z = rp_fresh(g_n); FILL_BYTES(z, g_n, E_GBYTE, g_v);                  \
        RP_CHECK(fn(z, (varintWidth)g_n) == g_v);                                      \
        free(z);                                                                       \
    }
#endif
C_EXTGET(varintExternalBigEndianGet)

#include "varintExternalBigEndian.c"

W_LEN(w_extbeUnsignedEncoding, varintWidth, uint64_t, spec_ext_len, DOM_ANY, { varintWidth e; varintExternalBigEndianUnsignedEncoding(x, e); return e; })
W_PUTW(w_extbePutFixedWidthQuick, uint8_t, E_OKW, E_BYTEW, { varintExternalBigEndianPutFixedWidthQuick_(z, x, width); return width; })
W_EXTGET(w_extbeGetQuick, { uint64_t r; varintExternalBigEndianGetQuick_(z, encoding, r); return r; })

W_REL(w_extbeRoundTrip, uint64_t, DOM_ANY, {
    uint8_t buf[10];
    uint8_t g0 = (uint8_t)(x >> 5) ^ 0x3c, g1 = (uint8_t)(x >> 17) ^ 0xa7;
    unsigned need = spec_ext_len(x);
    buf[0] = g0;
    buf[1 + need] = g1;
    varintWidth a = varintExternalBigEndianPut(buf + 1, x);
    varintWidth b;
    varintExternalBigEndianUnsignedEncoding(x, b);
    uint64_t out = varintExternalBigEndianGet(buf + 1, a);
    return a == b && a == need && a >= 1 && a <= 8 && out == x && buf[0] == g0 && buf[1 + need] == g1;
})

H_PUT(H_extbePut, varintExternalBigEndianPut, varintWidth, void, uint64_t, spec_ext_len, spec_extbe_byte, 1, 8, DOM_ANY)
H_PUTW(H_extbePutFixedWidth, varintExternalBigEndianPutFixedWidth, void, E_OKW, E_BYTEW, 1)
H_EXTGET(H_extbeGet, varintExternalBigEndianGet)
H_LEN(H_extbeUnsignedEncoding, w_extbeUnsignedEncoding, uint64_t, spec_ext_len, DOM_ANY)
H_PUTW(H_extbePutFixedWidthQuick, w_extbePutFixedWidthQuick, uint8_t, E_OKW, E_BYTEW, 0)
H_EXTGET(H_extbeGetQuick, w_extbeGetQuick)
H_REL(H_extbeRoundTrip, w_extbeRoundTrip, uint64_t, DOM_ANY)
RP_MAIN()
