/* Tagged varints: contracts on the real functions of /repo/src/varintTagged.c
 * (attached as prototypes; the definitions come from the #include below) and on
 * one-line wrappers of the header's macro fast paths. */
#include "cmacros.h"
#include "spec_scalar.h"
#include "varint.h"
#include "varintTagged.h"

uint64_t g_v; /* ghost: the value whose encoding a decoder is handed */
unsigned g_n; /* ghost: declared width (tagged payload forms may be wider than minimal) */

#define T_OKW(x, w) spec_tagged_fixed_ok((x), (w))
#define T_BYTEW(x, w, k) spec_tagged_byte_n((x), (w), (k))
#define T_GOK spec_tagged_fixed_ok(g_v, g_n)
#define T_GOK32 (spec_tagged_fixed_ok(g_v, g_n) && g_v <= UINT32_MAX)
#define T_GBYTE(v, k) spec_tagged_byte_n((v), g_n, (k))
#define T_GB0 spec_tagged_byte_n(g_v, g_n, 0)

C_PUT(varintTaggedPut64, varintWidth, uint8_t, uint64_t, spec_tagged_len, spec_tagged_byte, 1, 9, DOM_ANY)
C_PUT(varintTaggedPutVarint32, varintWidth, uint8_t, uint32_t, spec_tagged_len, spec_tagged_byte, 1, 5, DOM_ANY)
C_PUTW(varintTaggedPut64FixedWidth, uint8_t, T_OKW, T_BYTEW)
C_LEN(varintTaggedLen, varintWidth, uint64_t, spec_tagged_len, DOM_ANY)
C_GETLEN(varintTaggedGetLen, varintWidth, g_n, T_GB0, T_GOK)
C_GET(varintTaggedGet64, varintWidth, uint8_t, uint64_t, g_n, T_GBYTE, T_GOK)
C_GET(varintTaggedGetVarint32, varintWidth, uint8_t, uint32_t, g_n, T_GBYTE, T_GOK32)
C_GETRV(varintTaggedGet64ReturnValue, uint8_t, g_n, T_GBYTE, T_GOK)

/* bounded reader (C14 + C01): arbitrary bytes, exactly n of them readable;
 * announced length = what the first byte names */
static inline unsigned spec_tagged_announced(uint8_t b0) { return b0 <= 240 ? 1 : b0 <= 248 ? 2 : (unsigned)b0 - 246; }
#ifndef VERIF_NATIVE
varintWidth varintTaggedGet(const uint8_t *z, int32_t n, uint64_t *pResult)
    __CPROVER_requires(n <= 16)
    __CPROVER_requires(n <= 0 || FRESH(z, n)) /* contents unconstrained */
    __CPROVER_requires(FRESH(pResult, sizeof(uint64_t)))
    __CPROVER_assigns(*pResult)
    /* cut short of its announced length => 0; nothing at or beyond n is read (pointer checks) */
    __CPROVER_ensures(n < 1 ? RET == 0 : (n < (int)spec_tagged_announced(z[0]) ? RET == 0 : RET == spec_tagged_announced(z[0])))
    __CPROVER_ensures(RET == 0 || RET <= n);
#endif

#include "varintTagged.c"

/* ---- macro fast paths ---- */
W_LEN(w_taggedLenQuick, varintWidth, uint64_t, spec_tagged_len, DOM_ANY, { return varintTaggedLenQuick(x); })
W_GETLEN(w_taggedGetLenQuick, varintWidth, g_n, T_GB0, T_GOK, { return varintTaggedGetLenQuick_(z); })
W_PUTW(w_taggedPut64FixedWidthQuick, uint8_t, T_OKW, T_BYTEW, { varintTaggedPut64FixedWidthQuick_(z, x, width); return width; })
W_GETRV(w_taggedGet64Quick, uint8_t, g_n, T_GBYTE, T_GOK, { return varintTaggedGet64Quick_(z); })

/* relational wrapper: the real encoder feeds the real decoder and both length
 * readers; guard bytes on both sides of the slot stay untouched */
W_REL(w_taggedRoundTrip, uint64_t, DOM_ANY, {
    uint8_t buf[11];
    uint8_t g0 = (uint8_t)(x >> 3) ^ 0x5a, g1 = (uint8_t)(x >> 11) ^ 0xc3;
    unsigned need = spec_tagged_len(x);
    buf[0] = g0;
    buf[1 + need] = g1;
    uint64_t out = ~x;
    varintWidth a = varintTaggedPut64(buf + 1, x);
    varintWidth b = varintTaggedLen(x);
    varintWidth c = varintTaggedGetLen(buf + 1);
    varintWidth c2 = varintTaggedGetLenQuick_(buf + 1);
    varintWidth d = varintTaggedGet64(buf + 1, &out);
    return a == b && b == c && c == c2 && c == d && a >= 1 && a <= 9 && out == x && buf[0] == g0 &&
           buf[1 + need] == g1;
})

/* ---- harnesses ---- */
H_PUT(H_taggedPut64, varintTaggedPut64, varintWidth, uint8_t, uint64_t, spec_tagged_len, spec_tagged_byte, 1, 9, DOM_ANY)
H_PUT(H_taggedPutVarint32, varintTaggedPutVarint32, varintWidth, uint8_t, uint32_t, spec_tagged_len, spec_tagged_byte, 1, 5, DOM_ANY)
H_PUTW(H_taggedPut64FixedWidth, varintTaggedPut64FixedWidth, uint8_t, T_OKW, T_BYTEW, 0)
H_LEN(H_taggedLen, varintTaggedLen, uint64_t, spec_tagged_len, DOM_ANY)
H_GETLEN(H_taggedGetLen, varintTaggedGetLen, g_n, T_GB0, T_GOK)
H_GET(H_taggedGet64, varintTaggedGet64, uint8_t, uint64_t, g_n, T_GBYTE, T_GOK)
H_GET(H_taggedGetVarint32, varintTaggedGetVarint32, uint8_t, uint32_t, g_n, T_GBYTE, T_GOK32)
H_GETRV(H_taggedGet64ReturnValue, varintTaggedGet64ReturnValue, uint8_t, g_n, T_GBYTE, T_GOK)
H_LEN(H_taggedLenQuick, w_taggedLenQuick, uint64_t, spec_tagged_len, DOM_ANY)
H_GETLEN(H_taggedGetLenQuick, w_taggedGetLenQuick, g_n, T_GB0, T_GOK)
H_PUTW(H_taggedPut64FixedWidthQuick, w_taggedPut64FixedWidthQuick, uint8_t, T_OKW, T_BYTEW, 0)
H_GETRV(H_taggedGet64Quick, w_taggedGet64Quick, uint8_t, g_n, T_GBYTE, T_GOK)
H_REL(H_taggedRoundTrip, w_taggedRoundTrip, uint64_t, DOM_ANY)

/* bounded reader: the buffer is a harness local so its bytes appear in the trace */
#ifndef VERIF_NATIVE
void H_taggedGet(void) { uint8_t *z; int32_t n; uint64_t *r; varintTaggedGet(z, n, r); CANARY(); }
#else
void H_taggedGet(void) {
#ifdef IN_n
    int32_t n = (int32_t)IN_n;
#else
    int32_t n = 0;
#endif
    /* the trace does not carry the dynamic object's bytes: sweep every first byte */
    for (unsigned b0 = 0; b0 < 256; b0++) {
        uint8_t *z = rp_fresh(n > 0 ? n : 0);
        if (n > 0) z[0] = (uint8_t)b0;
        uint64_t r = 0;
        unsigned ret = varintTaggedGet(z, n, &r);
        unsigned ann = spec_tagged_announced((uint8_t)b0);
        RP_CHECK(n < 1 ? ret == 0 : (n < (int)ann ? ret == 0 : ret == ann));
        free(z);
    }
}
#endif

/* ---- C04: monotone length, header maxima sit exactly on the length boundaries ---- */
W_REL2(w_taggedMono, uint64_t, DOM_ANY, { return a > b || varintTaggedLen(a) <= varintTaggedLen(b); })
H_REL2(H_taggedMono, w_taggedMono, uint64_t, DOM_ANY)
#define T_BND(m, k) (varintTaggedLen(m) == (k) && varintTaggedLen((uint64_t)(m) + 1) == (k) + 1 && varintTaggedLenQuick(m) == (k))
W_REL0(w_taggedConstants, {
    return T_BND(VARINT_TAGGED_MAX_1, 1) && T_BND(VARINT_TAGGED_MAX_2, 2) && T_BND(VARINT_TAGGED_MAX_3, 3) &&
           T_BND(VARINT_TAGGED_MAX_4, 4) && T_BND(VARINT_TAGGED_MAX_5, 5) && T_BND(VARINT_TAGGED_MAX_6, 6) &&
           T_BND(VARINT_TAGGED_MAX_7, 7) && T_BND(VARINT_TAGGED_MAX_8, 8) && varintTaggedLen(VARINT_TAGGED_MAX_9) == 9 &&
           VARINT_TAGGED_MAX_1 == 240 && VARINT_TAGGED_MAX_2 == 2287 && VARINT_TAGGED_MAX_3 == 67823 &&
           VARINT_TAGGED_MAX_4 == (1ULL << 24) - 1 && VARINT_TAGGED_MAX_5 == (1ULL << 32) - 1 &&
           VARINT_TAGGED_MAX_6 == (1ULL << 40) - 1 && VARINT_TAGGED_MAX_7 == (1ULL << 48) - 1 &&
           VARINT_TAGGED_MAX_8 == (1ULL << 56) - 1;
})
H_REL0(H_taggedConstants, w_taggedConstants)

/* ---- C05: memcmp order of the real encodings == numeric order; also for pairs ---- */
static inline int sgn_(int c) { return c < 0 ? -1 : c > 0 ? 1 : 0; }
W_REL2(w_taggedOrder, uint64_t, DOM_ANY, {
    uint8_t ea[9], eb[9];
    varintWidth la = varintTaggedPut64(ea, a), lb = varintTaggedPut64(eb, b);
    varintWidth m = la < lb ? la : lb;
    int c = memcmp(ea, eb, m);            /* prefix-free: the shared prefix already decides unless equal */
    if (c == 0) c = (int)la - (int)lb;
    int want = a < b ? -1 : a > b ? 1 : 0;
    bool eq_ok = a != b || (la == lb && memcmp(ea, eb, la) == 0);
    /* prefix-freeness: the first byte alone fixes the length */
    bool pf = varintTaggedGetLen(ea) == la && varintTaggedGetLen(eb) == lb;
    return sgn_(c) == want && eq_ok && pf && (c != 0 || a == b);
})
H_REL2(H_taggedOrder, w_taggedOrder, uint64_t, DOM_ANY)

/* composite keys: (a1,a2) vs (b1,b2) as concatenated encodings under one memcmp over the shorter key */
#ifndef VERIF_NATIVE
bool w_taggedOrderPair(uint64_t a1, uint64_t a2, uint64_t b1, uint64_t b2)
    __CPROVER_assigns() __CPROVER_ensures(RET == true)
#else
bool w_taggedOrderPair(uint64_t a1, uint64_t a2, uint64_t b1, uint64_t b2)
#endif
{
    uint8_t ka[18], kb[18];
    unsigned la = varintTaggedPut64(ka, a1); la += varintTaggedPut64(ka + la, a2);
    unsigned lb = varintTaggedPut64(kb, b1); lb += varintTaggedPut64(kb + lb, b2);
    unsigned m = la < lb ? la : lb;
    int c = memcmp(ka, kb, m);
    if (c == 0) c = (int)la - (int)lb;
    int want = a1 < b1 ? -1 : a1 > b1 ? 1 : a2 < b2 ? -1 : a2 > b2 ? 1 : 0;
    return sgn_(c) == want;
}
#ifndef VERIF_NATIVE
void H_taggedOrderPair(void) { uint64_t a1, a2, b1, b2; w_taggedOrderPair(a1, a2, b1, b2); CANARY(); }
#else
#ifndef IN_a1
#define IN_a1 0
#endif
#ifndef IN_a2
#define IN_a2 0
#endif
#ifndef IN_b1
#define IN_b1 0
#endif
#ifndef IN_b2
#define IN_b2 0
#endif
void H_taggedOrderPair(void) { RP_CHECK(w_taggedOrderPair(IN_a1, IN_a2, IN_b1, IN_b2) == true); }
#endif

RP_MAIN()
