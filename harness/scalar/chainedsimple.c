/* Chained-simple (leveldb) varints: /repo/src/varintChainedSimple.c */
#include "cmacros.h"
#include "spec_scalar.h"
#include "varint.h"
#include "varintChainedSimple.h"

uint64_t g_v;
unsigned g_n;

#define CS_GN spec_chainedsimple_len(g_v)
#define CS_GOK32 (g_v <= UINT32_MAX)

C_PUT(varintChainedSimpleEncode64, varintWidth, uint8_t, uint64_t, spec_chainedsimple_len, spec_chainedsimple_byte, 1, 9, DOM_ANY)
C_PUT(varintChainedSimpleEncode32, varintWidth, uint8_t, uint32_t, spec_chainedsimple_len, spec_chainedsimple_byte, 1, 5, DOM_ANY)
C_LEN(varintChainedSimpleLength, varintWidth, uint64_t, spec_chainedsimple_len, DOM_ANY)
C_GET(varintChainedSimpleDecode64, varintWidth, uint8_t, uint64_t, CS_GN, spec_chainedsimple_byte, 1)
C_GET(varintChainedSimpleDecode32, varintWidth, uint8_t, uint32_t, CS_GN, spec_chainedsimple_byte, CS_GOK32)
C_GET(varintChainedSimpleDecode32Fallback, varintWidth, uint8_t, uint32_t, CS_GN, spec_chainedsimple_byte, CS_GOK32)

#include "varintChainedSimple.c"

W_REL(w_chainedSimpleRoundTrip, uint64_t, DOM_ANY, {
    uint8_t buf[11];
    uint8_t g0 = (uint8_t)(x >> 5) ^ 0x3c, g1 = (uint8_t)(x >> 17) ^ 0xa7;
    unsigned need = spec_chainedsimple_len(x);
    buf[0] = g0;
    buf[1 + need] = g1;
    uint64_t out = ~x;
    varintWidth a = varintChainedSimpleEncode64(buf + 1, x);
    varintWidth b = varintChainedSimpleLength(x);
    varintWidth d = varintChainedSimpleDecode64(buf + 1, &out);
    return a == b && a == d && a >= 1 && a <= 9 && out == x && buf[0] == g0 && buf[1 + need] == g1;
})

H_PUT(H_csEncode64, varintChainedSimpleEncode64, varintWidth, uint8_t, uint64_t, spec_chainedsimple_len, spec_chainedsimple_byte, 1, 9, DOM_ANY)
H_PUT(H_csEncode32, varintChainedSimpleEncode32, varintWidth, uint8_t, uint32_t, spec_chainedsimple_len, spec_chainedsimple_byte, 1, 5, DOM_ANY)
H_LEN(H_csLength, varintChainedSimpleLength, uint64_t, spec_chainedsimple_len, DOM_ANY)
H_GET(H_csDecode64, varintChainedSimpleDecode64, uint8_t, uint64_t, CS_GN, spec_chainedsimple_byte, 1)
H_GET(H_csDecode32, varintChainedSimpleDecode32, uint8_t, uint32_t, CS_GN, spec_chainedsimple_byte, CS_GOK32)
H_GET(H_csDecode32Fallback, varintChainedSimpleDecode32Fallback, uint8_t, uint32_t, CS_GN, spec_chainedsimple_byte, CS_GOK32)
H_REL(H_csRoundTrip, w_chainedSimpleRoundTrip, uint64_t, DOM_ANY)

W_REL2(w_csMono, uint64_t, DOM_ANY, { return a > b || varintChainedSimpleLength(a) <= varintChainedSimpleLength(b); })
H_REL2(H_csMono, w_csMono, uint64_t, DOM_ANY)

RP_MAIN()
