/* splitfull varints: every macro of /repo/src/varintSplitFull.h behind a one-line wrapper */
#include "cmacros.h"
#include "spec_scalar.h"
#include "varint.h"
#include "varintExternal.h"
#include "varintSplitFull.h"
#include "varintExternal.c" /* the macros fall back to varintExternalPutFixedWidth/Get */

uint64_t g_v;
unsigned g_n;

#define FAM splitfull
#define MP(x) varintSplitFull##x
#define F_LO 1
#define F_HI 9
#define F_DOM DOM_ANY
#define F_GOK 1
#define F_HASREV 1
#include "scalar/split_family.h"

#define SF_BND(m, k) (spec_splitfull_len(m) == (k))
static inline uint8_t sf_len_(uint64_t v) { uint8_t n; varintSplitFullLength_(n, v); return n; }
W_REL0(w_splitfullConstants, {
    return sf_len_(VARINT_SPLIT_FULL_STORAGE_1) == 1 && sf_len_(VARINT_SPLIT_FULL_STORAGE_1 + 1ULL) == 2 &&
           sf_len_(VARINT_SPLIT_FULL_STORAGE_2) == 2 && sf_len_(VARINT_SPLIT_FULL_STORAGE_2 + 1ULL) == 3 &&
           sf_len_(VARINT_SPLIT_FULL_STORAGE_3) == 3 &&
           sf_len_(VARINT_SPLIT_FULL_STORAGE_4) == 4 && sf_len_(VARINT_SPLIT_FULL_STORAGE_4 + 1ULL) == 5 &&
           sf_len_(VARINT_SPLIT_FULL_STORAGE_5) == 5 && sf_len_(VARINT_SPLIT_FULL_STORAGE_5 + 1ULL) == 6 &&
           sf_len_(VARINT_SPLIT_FULL_STORAGE_6) == 6 && sf_len_(VARINT_SPLIT_FULL_STORAGE_6 + 1ULL) == 7 &&
           sf_len_(VARINT_SPLIT_FULL_STORAGE_7) == 7 && sf_len_(VARINT_SPLIT_FULL_STORAGE_7 + 1ULL) == 8 &&
           sf_len_(VARINT_SPLIT_FULL_STORAGE_8) == 8 && sf_len_(VARINT_SPLIT_FULL_STORAGE_8 + 1ULL) == 9 &&
           sf_len_(VARINT_SPLIT_FULL_STORAGE_9) == 9 &&
           VARINT_SPLIT_FULL_STORAGE_1 == 63 && VARINT_SPLIT_FULL_STORAGE_2 == 16446 && VARINT_SPLIT_FULL_STORAGE_3 == 4210749 &&
           VARINT_SPLIT_FULL_STORAGE_4 == 20987964ULL && VARINT_SPLIT_FULL_STORAGE_5 == 4299178044ULL;
})
H_REL0(H_splitfullConstants, w_splitfullConstants)

RP_MAIN()
