/* Chained (sqlite3) varints: /repo/src/varintChained.c */
#include "cmacros.h"
#include "spec_scalar.h"
#include "varint.h"
#include "varintChained.h"

uint64_t g_v;
unsigned g_n; /* unused: chained encodings are always minimal */

#define CH_GN spec_chained_len(g_v)
#define CH_GOK32 (g_v <= UINT32_MAX && g_v > 127) /* the function assumes the 1-byte case was handled by the macro */
#define CH_GOK32ALL (g_v <= UINT32_MAX)

C_PUT(varintChainedPutVarint, varintWidth, uint8_t, uint64_t, spec_chained_len, spec_chained_byte, 1, 9, DOM_ANY)
C_LEN(varintChainedVarintLen, varintWidth, uint64_t, spec_chained_len, DOM_ANY)
C_GET(varintChainedGetVarint, varintWidth, uint8_t, uint64_t, CH_GN, spec_chained_byte, 1)
C_GET(varintChainedGetVarint32, varintWidth, uint8_t, uint32_t, CH_GN, spec_chained_byte, CH_GOK32)

#include "varintChained.c"

W_GET(w_chained_getVarint32, varintWidth, uint8_t, uint32_t, CH_GN, spec_chained_byte, CH_GOK32ALL,
      { uint32_t b = 0; varintWidth r = varintChained_getVarint32(z, b); *out = b; return r; })
W_PUT(w_chained_putVarint32, varintWidth, uint8_t, uint32_t, spec_chained_len, spec_chained_byte, 1, 5, DOM_ANY,
      { return varintChained_putVarint32(z, x); })

W_REL(w_chainedRoundTrip, uint64_t, DOM_ANY, {
    uint8_t buf[11];
    uint8_t g0 = (uint8_t)(x >> 5) ^ 0x3c, g1 = (uint8_t)(x >> 17) ^ 0xa7;
    unsigned need = spec_chained_len(x);
    buf[0] = g0;
    buf[1 + need] = g1;
    uint64_t out = ~x;
    varintWidth a = varintChainedPutVarint(buf + 1, x);
    varintWidth b = varintChainedVarintLen(x);
    varintWidth d = varintChainedGetVarint(buf + 1, &out);
    return a == b && a == d && a >= 1 && a <= 9 && out == x && buf[0] == g0 && buf[1 + need] == g1;
})

H_PUT(H_chainedPutVarint, varintChainedPutVarint, varintWidth, uint8_t, uint64_t, spec_chained_len, spec_chained_byte, 1, 9, DOM_ANY)
H_LEN(H_chainedVarintLen, varintChainedVarintLen, uint64_t, spec_chained_len, DOM_ANY)
H_GET(H_chainedGetVarint, varintChainedGetVarint, uint8_t, uint64_t, CH_GN, spec_chained_byte, 1)
H_GET(H_chainedGetVarint32, varintChainedGetVarint32, uint8_t, uint32_t, CH_GN, spec_chained_byte, CH_GOK32)
H_GET(H_chained_getVarint32, w_chained_getVarint32, uint8_t, uint32_t, CH_GN, spec_chained_byte, CH_GOK32ALL)
H_PUT(H_chained_putVarint32, w_chained_putVarint32, varintWidth, uint8_t, uint32_t, spec_chained_len, spec_chained_byte, 1, 5, DOM_ANY)
H_REL(H_chainedRoundTrip, w_chainedRoundTrip, uint64_t, DOM_ANY)

W_REL2(w_chainedMono, uint64_t, DOM_ANY, { return a > b || varintChainedVarintLen(a) <= varintChainedVarintLen(b); })
H_REL2(H_chainedMono, w_chainedMono, uint64_t, DOM_ANY)

RP_MAIN()
