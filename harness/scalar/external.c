/* External (little-endian) varints: /repo/src/varintExternal.c + header macros */
#include "cmacros.h"
#include "spec_scalar.h"
#include "varint.h"
#include "varintExternal.h"

uint64_t g_v; /* ghost: stored value */
unsigned g_n; /* ghost: stored width (>= minimal, <= 8) */

#define E_OKW(x, w) ((w) >= 1 && (w) <= 8 && (w) >= spec_ext_len(x))
#define E_BYTEW(x, w, k) spec_ext_byte((x), (k))
#define E_GOK (g_n >= 1 && g_n <= 8 && g_n >= spec_ext_len(g_v))
#define DOM_NONNEG(x) ((x) >= 0)

C_PUT(varintExternalPut, varintWidth, void, uint64_t, spec_ext_len, spec_ext_byte, 1, 8, DOM_ANY)
C_PUTW_VOID(varintExternalPutFixedWidth, void, E_OKW, E_BYTEW)
C_LEN(varintExternalSignedEncoding, varintWidth, int64_t, spec_ext_len, DOM_NONNEG)

/* decoder with explicit width: exactly `encoding` bytes are readable */
#define P_EXTGET_CLAUSES                                                               \
    __CPROVER_requires(E_GOK && encoding == g_n)                                       \
    REQUIRES_BYTES(((const uint8_t *)z), g_n, spec_ext_byte, g_v)                      \
    __CPROVER_assigns()                                                                \
    __CPROVER_ensures(RET == g_v)
#ifndef VERIF_NATIVE
#define C_EXTGET(fn) uint64_t fn(const void *z, varintWidth encoding) P_EXTGET_CLAUSES;
#define W_EXTGET(fn, ...) uint64_t fn(const void *z, varintWidth encoding) P_EXTGET_CLAUSES __VA_ARGS__
#define H_EXTGET(hn, fn) void hn(void) { SET_GHOSTS(); void *z; varintWidth encoding; fn(z, encoding); CANARY(); }
#else
#define C_EXTGET(fn)
#define W_EXTGET(fn, ...) uint64_t fn(const void *z, varintWidth encoding) __VA_ARGS__
#define H_EXTGET(hn, fn)                                                               \
    void hn(void) {                                                                    \
        RP_GHOSTS();                                                                   \
        if (!(E_GOK)) { printf("REPLAY: input outside the precondition\n"); return; }  \
        uint8_t *z = rp_fresh(g_n); FILL_BYTES(z, g_n, spec_ext_byte, g_v);            \
        RP_CHECK(fn(z, (varintWidth)g_n) == g_v);                                      \
        free(z);                                                                       \
    }
#endif
C_EXTGET(varintExternalGet)

#include "varintExternal.c"

/* ---- macros ---- */
W_LEN(w_extUnsignedEncoding, varintWidth, uint64_t, spec_ext_len, DOM_ANY, { varintWidth e; varintExternalUnsignedEncoding(x, e); return e; })
W_LEN(w_extLen, varintWidth, uint64_t, spec_ext_len, DOM_NONNEG_U, { return varintExternalLen(x); })
W_PUTW(w_extPutFixedWidthQuick, uint8_t, E_OKW, E_BYTEW, { varintExternalPutFixedWidthQuick_(z, x, width); return width; })
W_PUTW(w_extPutFixedWidthQuickMedium, uint8_t, E_OKW, E_BYTEW, { varintExternalPutFixedWidthQuickMedium_(z, x, width); return width; })
W_EXTGET(w_extGetQuick, { uint64_t r; varintExternalGetQuick_(z, encoding, r); return r; })
W_EXTGET(w_extGetQuickMedium, { uint64_t r; varintExternalGetQuickMedium_(z, encoding, r); return r; })
W_EXTGET(w_extGetQuickMediumReturnValue, { const uint8_t *zz = z; return varintExternalGetQuickMediumReturnValue_(zz, encoding); })

/* round trip through the real pair with guard bytes, minimal and every wider legal width */
W_REL(w_extRoundTrip, uint64_t, DOM_ANY, {
    uint8_t buf[10];
    uint8_t g0 = (uint8_t)(x >> 5) ^ 0x3c, g1 = (uint8_t)(x >> 17) ^ 0xa7;
    unsigned need = spec_ext_len(x);
    buf[0] = g0;
    buf[1 + need] = g1;
    varintWidth a = varintExternalPut(buf + 1, x);
    varintWidth b;
    varintExternalUnsignedEncoding(x, b);
    uint64_t out = varintExternalGet(buf + 1, a);
    return a == b && a == need && a >= 1 && a <= 8 && out == x && buf[0] == g0 && buf[1 + need] == g1;
})

/* ---- signed-storage helpers (24/40/48/56-bit fields) ---- */
#ifndef VERIF_NATIVE
#define SIGNED_RT(name, T, BITS, PREP, REST)                                           \
    bool name(T x)                                                                     \
        __CPROVER_requires(x > -((T)1 << (BITS - 1)) && x < ((T)1 << (BITS - 1)))      \
        __CPROVER_assigns()                                                            \
        __CPROVER_ensures(RET == true)                                                 \
    { T v = x; PREP(v); bool fits = (v >= 0) && (((uint64_t)v >> BITS) == 0); T r = v; REST(r); return fits && r == x; }
#define H_SIGNED(hn, fn, T) void hn(void) { T x; fn(x); CANARY(); }
#else
#define SIGNED_RT(name, T, BITS, PREP, REST)                                           \
    bool name(T x) { T v = x; PREP(v); bool fits = (v >= 0) && (((uint64_t)v >> BITS) == 0); T r = v; REST(r); return fits && r == x; }
#define H_SIGNED(hn, fn, T) void hn(void) { T x = (T)IN_x; RP_CHECK(fn(x) == true); }
#endif
SIGNED_RT(w_signed24, int32_t, 24, varintPrepareSigned32to24_, varintRestoreSigned24to32_)
SIGNED_RT(w_signed40, int64_t, 40, varintPrepareSigned64to40_, varintRestoreSigned40to64_)
SIGNED_RT(w_signed48, int64_t, 48, varintPrepareSigned64to48_, varintRestoreSigned48to64_)
SIGNED_RT(w_signed56, int64_t, 56, varintPrepareSigned64to56_, varintRestoreSigned56to64_)

H_PUT(H_extPut, varintExternalPut, varintWidth, void, uint64_t, spec_ext_len, spec_ext_byte, 1, 8, DOM_ANY)
H_PUTW(H_extPutFixedWidth, varintExternalPutFixedWidth, void, E_OKW, E_BYTEW, 1)
H_LEN(H_extSignedEncoding, varintExternalSignedEncoding, int64_t, spec_ext_len, DOM_NONNEG)
H_EXTGET(H_extGet, varintExternalGet)
H_LEN(H_extUnsignedEncoding, w_extUnsignedEncoding, uint64_t, spec_ext_len, DOM_ANY)
H_LEN(H_extLen, w_extLen, uint64_t, spec_ext_len, DOM_NONNEG_U)
H_PUTW(H_extPutFixedWidthQuick, w_extPutFixedWidthQuick, uint8_t, E_OKW, E_BYTEW, 0)
H_PUTW(H_extPutFixedWidthQuickMedium, w_extPutFixedWidthQuickMedium, uint8_t, E_OKW, E_BYTEW, 0)
H_EXTGET(H_extGetQuick, w_extGetQuick)
H_EXTGET(H_extGetQuickMedium, w_extGetQuickMedium)
H_EXTGET(H_extGetQuickMediumReturnValue, w_extGetQuickMediumReturnValue)
H_REL(H_extRoundTrip, w_extRoundTrip, uint64_t, DOM_ANY)
H_SIGNED(H_signed24, w_signed24, int32_t)
H_SIGNED(H_signed40, w_signed40, int64_t)
H_SIGNED(H_signed48, w_signed48, int64_t)
H_SIGNED(H_signed56, w_signed56, int64_t)

W_REL2(w_extMono, uint64_t, DOM_ANY, { varintWidth la, lb; varintExternalUnsignedEncoding(a, la); varintExternalUnsignedEncoding(b, lb); return a > b || la <= lb; })
H_REL2(H_extMono, w_extMono, uint64_t, DOM_ANY)

RP_MAIN()
