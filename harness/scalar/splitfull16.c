/* splitfull16 varints: every macro of /repo/src/varintSplitFull16.h behind a one-line wrapper */
#include "cmacros.h"
#include "spec_scalar.h"
#include "varint.h"
#include "varintExternal.h"
#include "varintSplitFull16.h"
#include "varintExternal.c" /* the macros fall back to varintExternalPutFixedWidth/Get */

uint64_t g_v;
unsigned g_n;

#define FAM splitfull16
#define MP(x) varintSplitFull16##x
#define F_LO 2
#define F_HI 9
#define F_DOM DOM_ANY
#define F_GOK 1
#define F_HASREV 0
#include "scalar/split_family.h"
RP_MAIN()
