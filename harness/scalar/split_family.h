/* one instantiation per split family; parameters:
 *   FAM     spec name (split, splitfull, splitfullnozero, splitfull16)
 *   MP(x)   pastes the real macro prefix, e.g. varintSplit##x
 *   F_LO/F_HI documented length range, F_DOM value domain, F_GOK ghost domain
 *   F_HASREV reversed forms exist */
#define SP_CAT_(a, b) a##b
#define SP_CAT(a, b) SP_CAT_(a, b)
#define SP_LEN SP_CAT(SP_CAT(spec_, FAM), _len)
#define SP_BYTE SP_CAT(SP_CAT(spec_, FAM), _byte)
#define SP_RBYTE SP_CAT(SP_CAT(spec_, FAM), _rev_byte)
#define SP_GN SP_LEN(g_v)
#define SP_GB0 SP_BYTE(g_v, 0)
#define WN(x) SP_CAT(SP_CAT(w_, FAM), x)
#define HN(x) SP_CAT(SP_CAT(H_, FAM), x)

W_PUT(WN(Put), varintWidth, uint8_t, uint64_t, SP_LEN, SP_BYTE, F_LO, F_HI, F_DOM, { uint8_t n; MP(Put_)(z, n, x); return n; })
W_LEN(WN(Length), varintWidth, uint64_t, SP_LEN, F_DOM, { uint8_t n; MP(Length_)(n, x); return n; })
W_GETLEN(WN(GetLen), varintWidth, SP_GN, SP_GB0, F_GOK, { uint8_t n; MP(GetLen_)(z, n); return n; })
W_GETLEN(WN(GetLenQuick), varintWidth, SP_GN, SP_GB0, F_GOK, { return MP(GetLenQuick_)(z); })
W_GET(WN(Get), varintWidth, uint8_t, uint64_t, SP_GN, SP_BYTE, F_GOK, { uint8_t n; uint64_t v; MP(Get_)(z, n, v); *out = v; return n; })
W_REL(WN(RoundTrip), uint64_t, F_DOM, {
    uint8_t buf[11];
    uint8_t g0 = (uint8_t)(x >> 5) ^ 0x3c, g1 = (uint8_t)(x >> 17) ^ 0xa7;
    unsigned need = SP_LEN(x);
    buf[0] = g0;
    buf[1 + need] = g1;
    uint8_t a, b, c, d;
    uint64_t out = ~x;
    MP(Put_)(buf + 1, a, x);
    MP(Length_)(b, x);
    MP(GetLen_)(buf + 1, c);
    uint8_t c2 = MP(GetLenQuick_)(buf + 1);
    MP(Get_)(buf + 1, d, out);
    return a == b && b == c && c == c2 && c == d && a >= F_LO && a <= F_HI && out == x && buf[0] == g0 && buf[1 + need] == g1;
})
/* C04: encoded length never decreases as the value grows (on the real length macro) */
W_REL2(WN(Mono), uint64_t, F_DOM, { uint8_t la, lb; MP(Length_)(la, a); MP(Length_)(lb, b); return a > b || la <= lb; })
H_REL2(HN(Mono), WN(Mono), uint64_t, F_DOM)
H_PUT(HN(Put), WN(Put), varintWidth, uint8_t, uint64_t, SP_LEN, SP_BYTE, F_LO, F_HI, F_DOM)
H_LEN(HN(Length), WN(Length), uint64_t, SP_LEN, F_DOM)
H_GETLEN(HN(GetLen), WN(GetLen), SP_GN, SP_GB0, F_GOK)
H_GETLEN(HN(GetLenQuick), WN(GetLenQuick), SP_GN, SP_GB0, F_GOK)
H_GET(HN(Get), WN(Get), uint8_t, uint64_t, SP_GN, SP_BYTE, F_GOK)
H_REL(HN(RoundTrip), WN(RoundTrip), uint64_t, F_DOM)

#if F_HASREV
/* reversed forms: the type byte is the LAST byte of the slot; z is the start of the exact-size slot */
W_PUT(WN(RevPutReversed), varintWidth, uint8_t, uint64_t, SP_LEN, SP_RBYTE, F_LO, F_HI, F_DOM,
      { uint8_t n; uint8_t *last = z + (SP_LEN(x) - 1); MP(ReversedPutReversed_)(last, n, x); return n; })
W_PUT(WN(RevPutForward), varintWidth, uint8_t, uint64_t, SP_LEN, SP_RBYTE, F_LO, F_HI, F_DOM,
      { uint8_t n; MP(ReversedPutForward_)(z, n, x); return n; })
W_GET(WN(RevGet), varintWidth, uint8_t, uint64_t, SP_GN, SP_RBYTE, F_GOK,
      { uint8_t n; uint64_t v; const uint8_t *last = z + (SP_GN - 1); MP(ReversedGet_)(last, n, v); *out = v; return n; })
W_REL(WN(RevRoundTrip), uint64_t, F_DOM, {
    uint8_t buf[11];
    uint8_t g0 = (uint8_t)(x >> 5) ^ 0x3c, g1 = (uint8_t)(x >> 17) ^ 0xa7;
    unsigned need = SP_LEN(x);
    buf[0] = g0;
    buf[1 + need] = g1;
    uint8_t a, b, d;
    uint64_t out = ~x;
    MP(ReversedPutReversed_)(buf + need, a, x);
    uint8_t c = MP(GetLenQuick_)(buf + need); /* length from the stored last byte */
    MP(ReversedGet_)(buf + need, d, out);
    uint8_t fwd[9];
    MP(ReversedPutForward_)(fwd, b, x);
    bool same = true;
    for (unsigned k = 0; k < 9; k++) { if (k < need && fwd[k] != buf[1 + k]) same = false; }
    return a == need && b == need && c == need && d == need && out == x && same && buf[0] == g0 && buf[1 + need] == g1;
})
H_PUT(HN(RevPutReversed), WN(RevPutReversed), varintWidth, uint8_t, uint64_t, SP_LEN, SP_RBYTE, F_LO, F_HI, F_DOM)
H_PUT(HN(RevPutForward), WN(RevPutForward), varintWidth, uint8_t, uint64_t, SP_LEN, SP_RBYTE, F_LO, F_HI, F_DOM)
H_GET(HN(RevGet), WN(RevGet), uint8_t, uint64_t, SP_GN, SP_RBYTE, F_GOK)
H_REL(HN(RevRoundTrip), WN(RevRoundTrip), uint64_t, F_DOM)
#endif
