/* splitfullnozero varints: every macro of /repo/src/varintSplitFullNoZero.h behind a one-line wrapper */
#include "cmacros.h"
#include "spec_scalar.h"
#include "varint.h"
#include "varintExternal.h"
#include "varintSplitFullNoZero.h"
#include "varintExternal.c" /* the macros fall back to varintExternalPutFixedWidth/Get */

uint64_t g_v;
unsigned g_n;

#define FAM splitfullnozero
#define MP(x) varintSplitFullNoZero##x
#define F_LO 1
#define F_HI 9
#define F_DOM DOM_NONZERO
#define F_GOK (g_v != 0)
#define F_HASREV 1
#include "scalar/split_family.h"

static inline uint8_t sfnz_len_(uint64_t v) { uint8_t n; varintSplitFullNoZeroLength_(n, v); return n; }
W_REL0(w_splitfullnozeroConstants, {
    return sfnz_len_(VARINT_SPLIT_FULL_NO_ZERO_STORAGE_1) == 1 && sfnz_len_(VARINT_SPLIT_FULL_NO_ZERO_STORAGE_1 + 1ULL) == 2 &&
           sfnz_len_(VARINT_SPLIT_FULL_NO_ZERO_STORAGE_2) == 2 && sfnz_len_(VARINT_SPLIT_FULL_NO_ZERO_STORAGE_2 + 1ULL) == 3 &&
           sfnz_len_(VARINT_SPLIT_FULL_NO_ZERO_STORAGE_3) == 3 &&
           sfnz_len_(VARINT_SPLIT_FULL_NO_ZERO_STORAGE_4) == 4 && sfnz_len_(VARINT_SPLIT_FULL_NO_ZERO_STORAGE_4 + 1ULL) == 5 &&
           sfnz_len_(VARINT_SPLIT_FULL_NO_ZERO_STORAGE_5) == 5 && sfnz_len_(VARINT_SPLIT_FULL_NO_ZERO_STORAGE_5 + 1ULL) == 6 &&
           sfnz_len_(VARINT_SPLIT_FULL_NO_ZERO_STORAGE_6) == 6 && sfnz_len_(VARINT_SPLIT_FULL_NO_ZERO_STORAGE_6 + 1ULL) == 7 &&
           sfnz_len_(VARINT_SPLIT_FULL_NO_ZERO_STORAGE_7) == 7 && sfnz_len_(VARINT_SPLIT_FULL_NO_ZERO_STORAGE_7 + 1ULL) == 8 &&
           sfnz_len_(VARINT_SPLIT_FULL_NO_ZERO_STORAGE_8) == 8 && sfnz_len_(VARINT_SPLIT_FULL_NO_ZERO_STORAGE_8 + 1ULL) == 9 &&
           sfnz_len_(VARINT_SPLIT_FULL_NO_ZERO_STORAGE_9) == 9 &&
           VARINT_SPLIT_FULL_NO_ZERO_STORAGE_1 == 64 && VARINT_SPLIT_FULL_NO_ZERO_STORAGE_2 == 16447 && VARINT_SPLIT_FULL_NO_ZERO_STORAGE_3 == 4210750;
})
H_REL0(H_splitfullnozeroConstants, w_splitfullnozeroConstants)

RP_MAIN()
