/* split varints: every macro of /repo/src/varintSplit.h behind a one-line wrapper */
#include "cmacros.h"
#include "spec_scalar.h"
#include "varint.h"
#include "varintExternal.h"
#include "varintSplit.h"
#include "varintExternal.c" /* the macros fall back to varintExternalPutFixedWidth/Get */

uint64_t g_v;
unsigned g_n;

#define FAM split
#define MP(x) varintSplit##x
#define F_LO 1
#define F_HI 9
#define F_DOM DOM_ANY
#define F_GOK 1
#define F_HASREV 1
#include "scalar/split_family.h"
RP_MAIN()
