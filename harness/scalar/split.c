/* split varints: every macro of /repo/src/varintSplit.h behind a one-line wrapper */
#include "cmacros.h"
#include "spec_scalar.h"
#include "varint.h"
#include "varintExternal.h"
#include "varintSplit.h"
#include "varintExternal.c" /* the macros fall back to varintExternalPutFixedWidth/Get */

uint64_t g_v;
unsigned g_n;

#define FAM split
#define MP(x) varintSplit##x
#define F_LO 1
#define F_HI 9
#define F_DOM DOM_ANY
#define F_GOK 1
#define F_HASREV 1
#include "scalar/split_family.h"

static inline uint8_t sp_len_(uint64_t v) { uint8_t n; varintSplitLength_(n, v); return n; }
W_REL0(w_splitConstants, {
    return VARINT_SPLIT_MAX_6 == 63 && VARINT_SPLIT_MAX_14 == 16446 && sp_len_(VARINT_SPLIT_MAX_6) == 1 && sp_len_(VARINT_SPLIT_MAX_6 + 1) == 2 &&
           sp_len_(VARINT_SPLIT_MAX_14) == 2 && sp_len_(16701) == 2 && sp_len_(16702) == 3 && sp_len_(81981) == 3 && sp_len_(81982) == 4;
})
H_REL0(H_splitConstants, w_splitConstants)

RP_MAIN()
