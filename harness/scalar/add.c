/* C12: in-place add on stored tagged / external varints
 * (/repo/src/varintTagged.c varintTaggedAdd*, /repo/src/varintExternal.c varintExternalAdd*) */
#include "cmacros.h"
#include "spec_scalar.h"
#include "varint.h"
#include "varintTagged.h"
#include "varintExternal.h"

uint64_t g_v; /* ghost: value stored in the slot before the call */
unsigned g_n; /* ghost: width of the stored varint == size of a no-grow slot */

static inline bool spec_add_overflows(uint64_t oldv, int64_t add) {
    int64_t o = (int64_t)oldv;
    return (o > 0 && add > INT64_MAX - o) || (o < 0 && add < INT64_MIN - o);
}
static inline uint64_t spec_add_new(uint64_t oldv, int64_t add) { return (uint64_t)((int64_t)oldv + add); }

#define T_GOK spec_tagged_fixed_ok(g_v, g_n)
#define T_OLD(v, k) spec_tagged_byte_n((v), g_n, (k))
#define NEWV spec_add_new(g_v, add)
#define T_NEWLEN spec_tagged_len(NEWV)
#define E_GOK (g_n >= 1 && g_n <= 8 && g_n >= spec_ext_len(g_v))
#define E_NEWLEN spec_ext_len(NEWV)

/* bytes k of the slot after the call: the new encoding where it was written, the old one elsewhere */
#define ENSURES_SLOT(z, slot, WRITTEN, NEWLEN, NEWBYTE, OLDBYTE, OLDX)                                         \
    __CPROVER_ensures((slot) < 1 || (z)[0] == (((WRITTEN) && 0 < (NEWLEN)) ? NEWBYTE(NEWV, 0) : (0 < g_n ? OLDBYTE(g_v, 0) : OLDX(z, 0)))) \
    __CPROVER_ensures((slot) < 2 || (z)[1] == (((WRITTEN) && 1 < (NEWLEN)) ? NEWBYTE(NEWV, 1) : (1 < g_n ? OLDBYTE(g_v, 1) : OLDX(z, 1)))) \
    __CPROVER_ensures((slot) < 3 || (z)[2] == (((WRITTEN) && 2 < (NEWLEN)) ? NEWBYTE(NEWV, 2) : (2 < g_n ? OLDBYTE(g_v, 2) : OLDX(z, 2)))) \
    __CPROVER_ensures((slot) < 4 || (z)[3] == (((WRITTEN) && 3 < (NEWLEN)) ? NEWBYTE(NEWV, 3) : (3 < g_n ? OLDBYTE(g_v, 3) : OLDX(z, 3)))) \
    __CPROVER_ensures((slot) < 5 || (z)[4] == (((WRITTEN) && 4 < (NEWLEN)) ? NEWBYTE(NEWV, 4) : (4 < g_n ? OLDBYTE(g_v, 4) : OLDX(z, 4)))) \
    __CPROVER_ensures((slot) < 6 || (z)[5] == (((WRITTEN) && 5 < (NEWLEN)) ? NEWBYTE(NEWV, 5) : (5 < g_n ? OLDBYTE(g_v, 5) : OLDX(z, 5)))) \
    __CPROVER_ensures((slot) < 7 || (z)[6] == (((WRITTEN) && 6 < (NEWLEN)) ? NEWBYTE(NEWV, 6) : (6 < g_n ? OLDBYTE(g_v, 6) : OLDX(z, 6)))) \
    __CPROVER_ensures((slot) < 8 || (z)[7] == (((WRITTEN) && 7 < (NEWLEN)) ? NEWBYTE(NEWV, 7) : (7 < g_n ? OLDBYTE(g_v, 7) : OLDX(z, 7)))) \
    __CPROVER_ensures((slot) < 9 || (z)[8] == (((WRITTEN) && 8 < (NEWLEN)) ? NEWBYTE(NEWV, 8) : (8 < g_n ? OLDBYTE(g_v, 8) : OLDX(z, 8))))

#define REQUIRES_SLOT(z, slot, OLDBYTE)                                                \
    __CPROVER_requires(FRESH((z), (slot)))                                             \
    __CPROVER_requires(g_n < 1 || (z)[0] == OLDBYTE(g_v, 0))                           \
    __CPROVER_requires(g_n < 2 || (z)[1] == OLDBYTE(g_v, 1))                           \
    __CPROVER_requires(g_n < 3 || (z)[2] == OLDBYTE(g_v, 2))                           \
    __CPROVER_requires(g_n < 4 || (z)[3] == OLDBYTE(g_v, 3))                           \
    __CPROVER_requires(g_n < 5 || (z)[4] == OLDBYTE(g_v, 4))                           \
    __CPROVER_requires(g_n < 6 || (z)[5] == OLDBYTE(g_v, 5))                           \
    __CPROVER_requires(g_n < 7 || (z)[6] == OLDBYTE(g_v, 6))                           \
    __CPROVER_requires(g_n < 8 || (z)[7] == OLDBYTE(g_v, 7))                           \
    __CPROVER_requires(g_n < 9 || (z)[8] == OLDBYTE(g_v, 8))

/* bytes of a grow slot beyond the stored varint keep their entry value; a no-grow slot has none */
#define OLDX_NONE(z, k) 0
#define OLDX_KEEP(z, k) __CPROVER_old((z)[k])
#ifndef VERIF_NATIVE
/* no-grow: the object is exactly the current width, so any byte beyond it is a pointer violation */
varintWidth varintTaggedAddNoGrow(uint8_t *z, int64_t add)
    __CPROVER_requires(T_GOK)
    REQUIRES_SLOT(z, g_n, T_OLD)
    __CPROVER_assigns(__CPROVER_object_whole(z))
    __CPROVER_ensures(RET == (spec_add_overflows(g_v, add) ? 0 : T_NEWLEN))
    ENSURES_SLOT(z, g_n, (!spec_add_overflows(g_v, add) && T_NEWLEN <= g_n), T_NEWLEN, spec_tagged_byte, T_OLD, OLDX_NONE);

varintWidth varintTaggedAddGrow(uint8_t *z, int64_t add)
    __CPROVER_requires(T_GOK)
    REQUIRES_SLOT(z, 9, T_OLD)
    __CPROVER_assigns(__CPROVER_object_whole(z))
    __CPROVER_ensures(RET == (spec_add_overflows(g_v, add) ? 0 : T_NEWLEN) && RET <= 9)
    ENSURES_SLOT(z, 9, (!spec_add_overflows(g_v, add)), T_NEWLEN, spec_tagged_byte, T_OLD, OLDX_KEEP);

varintWidth varintExternalAddNoGrow(uint8_t *z, varintWidth encoding, int64_t add)
    __CPROVER_requires(E_GOK && encoding == g_n)
    REQUIRES_SLOT(z, g_n, spec_ext_byte)
    __CPROVER_assigns(__CPROVER_object_whole(z))
    __CPROVER_ensures(RET == (spec_add_overflows(g_v, add) ? 0 : E_NEWLEN))
    ENSURES_SLOT(z, g_n, (!spec_add_overflows(g_v, add) && E_NEWLEN <= g_n), E_NEWLEN, spec_ext_byte, spec_ext_byte, OLDX_NONE);

varintWidth varintExternalAddGrow(uint8_t *z, varintWidth encoding, int64_t add)
    __CPROVER_requires(E_GOK && encoding == g_n)
    REQUIRES_SLOT(z, 8, spec_ext_byte)
    __CPROVER_assigns(__CPROVER_object_whole(z))
    __CPROVER_ensures(RET == (spec_add_overflows(g_v, add) ? 0 : E_NEWLEN) && RET <= 8)
    ENSURES_SLOT(z, 8, (!spec_add_overflows(g_v, add)), E_NEWLEN, spec_ext_byte, spec_ext_byte, OLDX_KEEP);
#endif

#include "varintTagged.c"
#include "varintExternal.c"

#ifndef VERIF_NATIVE
void H_taggedAddNoGrow(void) { SET_GHOSTS(); uint8_t *z; int64_t add; varintTaggedAddNoGrow(z, add); CANARY(); }
void H_taggedAddGrow(void) { SET_GHOSTS(); uint8_t *z; int64_t add; varintTaggedAddGrow(z, add); CANARY(); }
void H_extAddNoGrow(void) { SET_GHOSTS(); uint8_t *z; varintWidth encoding; int64_t add; varintExternalAddNoGrow(z, encoding, add); CANARY(); }
void H_extAddGrow(void) { SET_GHOSTS(); uint8_t *z; varintWidth encoding; int64_t add; varintExternalAddGrow(z, encoding, add); CANARY(); }
#else
#ifndef IN_add
#define IN_add 0
#endif
/* native evaluation of the same contract: slot of exactly `slot` bytes (ASan guards the rest) */
#define RP_ADD(hn, CALL, GOK, slot_, OLDBYTE, NEWLEN, NEWBYTE, GROW)                                        \
    void hn(void) {                                                                                         \
        RP_GHOSTS(); int64_t add = (int64_t)IN_add;                                                          \
        if (!(GOK)) { printf("REPLAY: input outside the precondition\n"); return; }                         \
        unsigned slot = (slot_);                                                                            \
        uint8_t *z = rp_fresh(slot); uint8_t before[9];                                                     \
        for (unsigned k = 0; k < g_n; k++) z[k] = OLDBYTE(g_v, k);                                           \
        memcpy(before, z, slot);                                                                            \
        unsigned r = (unsigned)CALL;                                                                        \
        bool ovf = spec_add_overflows(g_v, add);                                                            \
        unsigned nl = ovf ? 0 : (NEWLEN);                                                                   \
        RP_CHECK(r == nl);                                                                                  \
        bool written = !ovf && ((GROW) || nl <= g_n);                                                       \
        for (unsigned k = 0; k < slot; k++) RP_CHECK(z[k] == ((written && k < nl) ? NEWBYTE(NEWV, k) : before[k])); \
        free(z);                                                                                            \
    }
RP_ADD(H_taggedAddNoGrow, varintTaggedAddNoGrow(z, add), T_GOK, g_n, T_OLD, T_NEWLEN, spec_tagged_byte, 0)
RP_ADD(H_taggedAddGrow, varintTaggedAddGrow(z, add), T_GOK, 9, T_OLD, T_NEWLEN, spec_tagged_byte, 1)
RP_ADD(H_extAddNoGrow, varintExternalAddNoGrow(z, (varintWidth)g_n, add), E_GOK, g_n, spec_ext_byte, E_NEWLEN, spec_ext_byte, 0)
RP_ADD(H_extAddGrow, varintExternalAddGrow(z, (varintWidth)g_n, add), E_GOK, 8, spec_ext_byte, E_NEWLEN, spec_ext_byte, 1)
#endif
RP_MAIN()
