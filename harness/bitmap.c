/* Hybrid bitmap: /repo/src/varintBitmap.c.  The set abstraction is view(vb, g) := varintBitmapContains(vb, g) for a
 * ghost element g; wf(vb) is the representation invariant.  Every job builds an ARBITRARY well-formed container of
 * the stated kind and size, runs ONE public operation and checks wf' and view'(g) == f(view(g), args): the step of
 * the induction over histories ("invariant preserved by every public operation"; the induction itself is meta-level).
 *   array jobs: ARRAY containers of at most BM_N members (capacity BM_CAP), loops width-bounded by that
 *   bitmap jobs: BITMAP containers with arbitrary 8192-byte contents (loop-free paths: complete for those paths)
 *   Decode on hostile input (C14), Encode->Decode, set algebra, iterator, allocation failure (C18) */
#include "cmacros.h"
#include "varint.h"
#include "varintBitmap.h"
#ifndef BM_N
#define BM_N 3
#endif
#define BM_CAP 4

#include "varintBitmap.c"

#ifndef VERIF_NATIVE
#ifdef BM_OOM
#define OR_BAIL(p) if (!(p)) return
#else
#define OR_BAIL(p) __CPROVER_assume((p) != NULL)
#endif
/* arbitrary well-formed ARRAY container with at most BM_N members */
static varintBitmap *mk_array(void) {
    varintBitmap *vb = malloc(sizeof(*vb));
    __CPROVER_assume(vb != NULL);
    uint32_t n; __CPROVER_assume(n <= BM_N);
    vb->type = VARINT_BITMAP_ARRAY; vb->cardinality = n; vb->container.array.capacity = BM_CAP;
    vb->container.array.values = malloc(BM_CAP * sizeof(uint16_t));
    __CPROVER_assume(vb->container.array.values != NULL);
    for (unsigned i = 0; i + 1 < BM_N; i++) if (i + 1 < n) __CPROVER_assume(vb->container.array.values[i] < vb->container.array.values[i + 1]);
    return vb;
}
static bool wf_array(const varintBitmap *vb, uint32_t j) {   /* j: ghost position of an adjacent pair */
    return vb->type == VARINT_BITMAP_ARRAY && vb->cardinality <= vb->container.array.capacity && vb->container.array.values != NULL &&
           (j + 1 >= vb->cardinality || vb->container.array.values[j] < vb->container.array.values[j + 1]);
}
/* arbitrary BITMAP container: any 8192 bytes, cardinality maintained incrementally (checked relationally) */
static varintBitmap *mk_bitmap(void) {
    varintBitmap *vb = malloc(sizeof(*vb));
    __CPROVER_assume(vb != NULL);
    uint32_t c; __CPROVER_assume(c >= VARINT_BITMAP_ARRAY_MAX + 2 && c <= 65535);   /* away from the conversion threshold */
    vb->type = VARINT_BITMAP_BITMAP; vb->cardinality = c;
    vb->container.bitmap.bits = malloc(VARINT_BITMAP_BITMAP_SIZE);
    __CPROVER_assume(vb->container.bitmap.bits != NULL);
    return vb;
}

/* ---- ARRAY container: add / remove / contains / clear / cardinality / isEmpty ---- */
void H_bmArrayOps(void) {
    varintBitmap *vb = mk_array();
    uint16_t v, g; uint32_t j; unsigned char addc; bool add = (addc & 1) != 0; __CPROVER_assume(j < BM_CAP);
    bool had_g = varintBitmapContains(vb, g), had_v = varintBitmapContains(vb, v);
    uint32_t card = varintBitmapCardinality(vb);
    __CPROVER_assert(varintBitmapIsEmpty(vb) == (card == 0), "bitmap array: emptiness");
    bool r = add ? varintBitmapAdd(vb, v) : varintBitmapRemove(vb, v);
#ifdef BM_OOM
    if (add && !r && !had_v) {   /* growth failed: reported as false, set unchanged and still well formed */
        __CPROVER_assert(wf_array(vb, j) && varintBitmapContains(vb, g) == had_g && varintBitmapCardinality(vb) == card, "bitmap OOM: failed Add leaves the set unchanged");
        varintBitmapFree(vb); return;
    }
#endif
    __CPROVER_assert(r == (add ? !had_v : had_v), "bitmap array: mutator reports truthfully whether the set changed");
    __CPROVER_assert(wf_array(vb, j), "bitmap array: representation invariant preserved (bounded, strictly ascending)");
    __CPROVER_assert(varintBitmapContains(vb, g) == (g == v ? add : had_g), "bitmap array: membership of every other element unchanged, of v as requested");
    __CPROVER_assert(varintBitmapCardinality(vb) == card + (r ? (add ? 1 : -1) : 0), "bitmap array: cardinality moves by exactly the change");
    varintBitmapClear(vb);
    __CPROVER_assert(varintBitmapIsEmpty(vb) && !varintBitmapContains(vb, g) && varintBitmapCardinality(vb) == 0, "bitmap: clear empties the set");
    varintBitmapFree(vb);
    CANARY();
}

/* ---- RUNS container with one run (what a large AddRange on an empty set leaves): membership, clear ---- */
void H_bmRunsClear(void) {
    varintBitmap *vb = malloc(sizeof(*vb)); __CPROVER_assume(vb != NULL);
    uint16_t start, length, g; __CPROVER_assume(length >= 1 && (uint32_t)start + length <= 65536);
    vb->type = VARINT_BITMAP_RUNS; vb->cardinality = length;
    vb->container.runs.numRuns = 1; vb->container.runs.capacity = 1;
    vb->container.runs.runs = malloc(2 * sizeof(uint16_t)); __CPROVER_assume(vb->container.runs.runs != NULL);
    vb->container.runs.runs[0] = start; vb->container.runs.runs[1] = length;
    __CPROVER_assert(varintBitmapContains(vb, g) == (g >= start && (uint32_t)g < (uint32_t)start + length), "bitmap runs: a run holds exactly its range");
    __CPROVER_assert(varintBitmapCardinality(vb) == length && !varintBitmapIsEmpty(vb), "bitmap runs: cardinality");
    varintBitmapClear(vb);
    __CPROVER_assert(varintBitmapIsEmpty(vb) && varintBitmapCardinality(vb) == 0, "bitmap runs: clear empties the set");
    __CPROVER_assert(!varintBitmapContains(vb, g), "bitmap runs: after clear no element is a member any more");
    varintBitmapIterator it = varintBitmapCreateIterator(vb);
    __CPROVER_assert(!varintBitmapIteratorNext(&it), "bitmap runs: after clear the iterator yields nothing");
    varintBitmapFree(vb);
    CANARY();
}

/* ---- arrayEnsureCapacity_: growth either succeeds or leaves the container exactly as it was (C18) ---- */
void H_bmEnsureCapacity(void) {
    varintBitmap *vb = mk_array();
    uint32_t needed; __CPROVER_assume(needed <= 64);
    uint32_t cap0 = vb->container.array.capacity, card0 = vb->cardinality; uint16_t first0 = vb->container.array.values[0];
    bool ok = arrayEnsureCapacity_(vb, needed);
    if (ok) __CPROVER_assert(vb->container.array.capacity >= needed && vb->container.array.capacity >= cap0 && vb->container.array.values != NULL, "bitmap: successful growth provides the capacity");
    else __CPROVER_assert(vb->container.array.capacity == cap0 && vb->container.array.values != NULL, "bitmap OOM: failed growth leaves capacity and storage as they were");
    __CPROVER_assert(vb->cardinality == card0 && (card0 == 0 || vb->container.array.values[0] == first0), "bitmap: growth keeps the members");
    __CPROVER_assert(__CPROVER_w_ok(vb->container.array.values, (size_t)vb->container.array.capacity * sizeof(uint16_t)), "bitmap: the recorded capacity is really allocated");
    varintBitmapFree(vb);
    CANARY();
}

/* ---- Decode accepts every dense-container stream, including the full set ---- */
void H_bmDecodeDense(void) {
    uint8_t *buf = malloc(5 + VARINT_BITMAP_BITMAP_SIZE); __CPROVER_assume(buf != NULL);
    uint32_t card; __CPROVER_assume(card <= 65536); uint16_t g;
    buf[0] = VARINT_BITMAP_BITMAP; memcpy(buf + 1, &card, 4);
    bool member = (buf[5 + g / 8] >> (g % 8)) & 1;
    varintBitmap *d = varintBitmapDecode(buf, 5 + VARINT_BITMAP_BITMAP_SIZE);
    __CPROVER_assert(d != NULL, "bitmap: a well-formed dense stream of any cardinality up to 65536 is accepted");
    __CPROVER_assert(d->type == VARINT_BITMAP_BITMAP && varintBitmapCardinality(d) == card && varintBitmapContains(d, g) == member, "bitmap: dense stream decodes to the same set");
    varintBitmapFree(d); free(buf);
    CANARY();
}

/* ---- BITMAP container (loop-free paths) ---- */
void H_bmBitmapOps(void) {
    varintBitmap *vb = mk_bitmap();
    uint16_t v, g; unsigned char addc; bool add = (addc & 1) != 0;
    bool had_g = varintBitmapContains(vb, g), had_v = varintBitmapContains(vb, v);
    uint32_t card = varintBitmapCardinality(vb);
    bool r = add ? varintBitmapAdd(vb, v) : varintBitmapRemove(vb, v);
    __CPROVER_assert(r == (add ? !had_v : had_v), "bitmap dense: mutator reports truthfully whether the set changed");
    __CPROVER_assert(vb->type == VARINT_BITMAP_BITMAP, "bitmap dense: stays a bitmap container away from the threshold");
    __CPROVER_assert(varintBitmapContains(vb, g) == (g == v ? add : had_g), "bitmap dense: membership of every other element unchanged, of v as requested");
    __CPROVER_assert(varintBitmapCardinality(vb) == card + (r ? (add ? 1 : -1) : 0), "bitmap dense: cardinality moves by exactly the change");
    CANARY();
}

/* ---- AddRange: short range on an array; large range on an empty set (run container) ---- */
void H_bmAddRange(void) {
    varintBitmap *vb = mk_array();
    __CPROVER_assume(vb->cardinality <= 1);
    uint16_t lo, hi, g; __CPROVER_assume(hi <= lo + 2u);     /* at most two new members: stays within capacity BM_CAP */
    bool had_g = varintBitmapContains(vb, g);
    varintBitmapAddRange(vb, lo, hi);
    __CPROVER_assert(varintBitmapContains(vb, g) == (had_g || (g >= lo && g < hi)), "bitmap: AddRange adds exactly the half-open range and keeps what was there");
    varintBitmapFree(vb);
    CANARY();
}
void H_bmAddRangeLargeEmpty(void) {
    varintBitmap *vb = varintBitmapCreate(); OR_BAIL(vb);
    uint16_t lo, hi, g; __CPROVER_assume(hi > lo && (uint32_t)hi - lo > VARINT_BITMAP_ARRAY_MAX);
    varintBitmapAddRange(vb, lo, hi);
#ifdef BM_OOM
    if (vb->cardinality == 0) { __CPROVER_assert(!varintBitmapContains(vb, g), "bitmap OOM: failed AddRange leaves an empty, usable set"); varintBitmapFree(vb); return; }
#endif
    __CPROVER_assert(varintBitmapCardinality(vb) == (uint32_t)hi - lo, "bitmap: large AddRange on an empty set has the range's cardinality");
    __CPROVER_assert(varintBitmapContains(vb, g) == (g >= lo && g < hi), "bitmap: large AddRange on an empty set holds exactly the range");
    varintBitmapFree(vb);
    CANARY();
}

/* ---- set algebra on small arrays: result view, operands untouched ---- */
void H_bmAlgebra(void) {
    varintBitmap *a = mk_array(), *b = mk_array();
    __CPROVER_assume(a->cardinality <= 2 && b->cardinality <= 2);
    uint16_t g; unsigned op; __CPROVER_assume(op == BM_OP);
    bool ga = varintBitmapContains(a, g), gb = varintBitmapContains(b, g);
    uint32_t ca = a->cardinality, cb = b->cardinality; uint16_t a0 = a->container.array.values[0], b0 = b->container.array.values[0];
    varintBitmap *r = op == 0 ? varintBitmapAnd(a, b) : op == 1 ? varintBitmapOr(a, b) : op == 2 ? varintBitmapXor(a, b) : varintBitmapAndNot(a, b);
#ifdef BM_OOM
    if (!r) { varintBitmapFree(a); varintBitmapFree(b); return; }
#else
    __CPROVER_assert(r != NULL, "bitmap algebra: result allocated");
#endif
    bool want = op == 0 ? (ga && gb) : op == 1 ? (ga || gb) : op == 2 ? (ga != gb) : (ga && !gb);
#ifndef BM_OOM
    __CPROVER_assert(varintBitmapContains(r, g) == want, "bitmap algebra: result is the set operation of the operands");
#endif
    __CPROVER_assert(varintBitmapContains(a, g) == ga && varintBitmapContains(b, g) == gb && a->cardinality == ca && b->cardinality == cb &&
                     a->container.array.values[0] == a0 && b->container.array.values[0] == b0, "bitmap algebra: operands unchanged");
    varintBitmapFree(r); varintBitmapFree(a); varintBitmapFree(b);
    CANARY();
}

/* ---- iterator and array export: ascending, duplicate-free, exactly the members ---- */
void H_bmIterate(void) {
    varintBitmap *vb = mk_array();
    uint16_t outv[BM_N + 1]; outv[BM_N] = 0x5a5a;
    uint32_t n = varintBitmapToArray(vb, outv);
    __CPROVER_assert(n == vb->cardinality && outv[BM_N] == 0x5a5a, "bitmap: export writes cardinality values");
    uint32_t k; __CPROVER_assume(k < n);
    __CPROVER_assert(varintBitmapContains(vb, outv[k]) && (k + 1 >= n || outv[k] < outv[k + 1]), "bitmap: exported values are members, strictly ascending");
    varintBitmapIterator it = varintBitmapCreateIterator(vb);
    uint32_t seen = 0; uint16_t prev = 0;
    for (unsigned i = 0; i <= BM_N; i++) {
        if (!varintBitmapIteratorNext(&it)) break;
        __CPROVER_assert(varintBitmapContains(vb, it.currentValue) && (seen == 0 || it.currentValue > prev), "bitmap: iterator yields members in strictly ascending order");
        prev = it.currentValue; seen++;
    }
    __CPROVER_assert(seen == vb->cardinality, "bitmap: iterator yields exactly cardinality values");
    varintBitmapFree(vb);
    CANARY();
}

/* ---- serialise / deserialise ---- */
void H_bmEncodeDecode(void) {
    varintBitmap *vb = mk_array();
    uint16_t g; bool had = varintBitmapContains(vb, g);
    uint8_t buf[5 + 2 * BM_CAP + 4]; buf[5 + 2 * BM_CAP] = 0x5a;
    size_t sz = varintBitmapSizeBytes(vb);
    size_t n = varintBitmapEncode(vb, buf);
    __CPROVER_assert(n == 5 + 2 * (size_t)vb->cardinality && buf[5 + 2 * BM_CAP] == 0x5a, "bitmap: encoded size of an array container");
    varintBitmap *d = varintBitmapDecode(buf, n);
#ifdef BM_OOM
    if (!d) { varintBitmapFree(vb); return; }
#else
    __CPROVER_assert(d != NULL, "bitmap: decoder accepts exactly the bytes the encoder wrote");
#endif
    __CPROVER_assert(varintBitmapContains(d, g) == had && varintBitmapCardinality(d) == varintBitmapCardinality(vb), "bitmap: serialise/deserialise preserves the set");
    (void)sz;
    varintBitmapFree(d); varintBitmapFree(vb);
    CANARY();
}

/* ---- Decode on hostile input: exactly len bytes, arbitrary contents ---- */
void H_bmDecodeHostile(void) {
    size_t len = BM_HLEN;
    uint8_t *buf = malloc(len); __CPROVER_assume(buf != NULL);
    varintBitmap *d = varintBitmapDecode(buf, len);
    if (d) {
        __CPROVER_assert(d->type == VARINT_BITMAP_ARRAY || d->type == VARINT_BITMAP_BITMAP || d->type == VARINT_BITMAP_RUNS, "bitmap hostile input: only known container types are accepted");
        __CPROVER_assert(d->type != VARINT_BITMAP_ARRAY || 5 + 2 * (size_t)d->cardinality <= len, "bitmap hostile input: declared members fit the input");
        varintBitmapFree(d);
    }
    free(buf);
    CANARY();
}

/* ---- allocation skeleton ---- */
void H_bmCreateClone(void) {
    varintBitmap *vb = mk_array(); uint16_t g; bool had = varintBitmapContains(vb, g);
    varintBitmap *c = varintBitmapClone(vb);
#ifdef BM_OOM
    if (!c) { varintBitmapFree(vb); return; }
#else
    __CPROVER_assert(c != NULL, "bitmap: clone allocated");
#endif
    __CPROVER_assert(varintBitmapContains(c, g) == had, "bitmap: clone holds the same members");
    __CPROVER_assert(c->cardinality == vb->cardinality, "bitmap: clone has the same cardinality");
    __CPROVER_assert(c->container.array.values != vb->container.array.values, "bitmap: clone owns its storage");
    varintBitmapFree(c); varintBitmapFree(vb);
    CANARY();
}
#endif
