/* C10: /repo/src/varintDimension.c + varintDimension.h macros */
#include "cmacros.h"
#include "spec_scalar.h"
#include "varint.h"
#include "varintDimension.h"
#include "varintExternal.h"

/* ---------------- spec (from the header comments and the property text) ---------------- */
/* pair header: top 4 bits row width (0-8), next 3 bits col width - 1 (1-8), last bit sparse */
#define SPEC_PAIR(wr, wc, sp) ((unsigned)(((wr) << 4) | (((wc)-1) << 1) | (sp)))
static inline unsigned spec_row_width(uint64_t rows) { return rows ? spec_ext_len(rows) : 0; }
static inline unsigned spec_col_width(uint64_t cols) { return spec_ext_len(cols); }
/* smallest n in 1..8 with max(row,col) < 2^(4n) */
static inline unsigned spec_packed_level(uint64_t m) {
    return m < (1ULL << 4) ? 1 : m < (1ULL << 8) ? 2 : m < (1ULL << 12) ? 3 : m < (1ULL << 16) ? 4
         : m < (1ULL << 20) ? 5 : m < (1ULL << 24) ? 6 : m < (1ULL << 28) ? 7 : m < (1ULL << 32) ? 8 : 0;
}
#define MAXU(a, b) ((a) > (b) ? (a) : (b))

/* ghosts: the matrix described by the header */
uint64_t g_rows, g_cols;
unsigned g_sparse;
uint64_t g_k;   /* arbitrary byte index of the matrix object */
unsigned g_r;   /* splits the 2^45 cell budget between row index and column count */
uint64_t g_v;   /* value currently stored in the addressed cell (not used by all) */
uint64_t g_off; /* byte offset of the addressed cell, pinned by a requires (assigns targets may not hold calls/ternaries) */
/* macro forms (assigns-clause targets may not contain function calls) */
#define M_EXT_LEN(v) ((v) <= 0xffULL ? 1u : (v) <= 0xffffULL ? 2u : (v) <= 0xffffffULL ? 3u : (v) <= 0xffffffffULL ? 4u \
                    : (v) <= 0xffffffffffULL ? 5u : (v) <= 0xffffffffffffULL ? 6u : (v) <= 0xffffffffffffffULL ? 7u : 8u)
#define G_WR (g_rows ? M_EXT_LEN(g_rows) : 0u)
#define G_WC M_EXT_LEN(g_cols)
#define G_HDR (G_WR + G_WC)
#define G_DIM SPEC_PAIR(G_WR, G_WC, g_sparse)
#define CELL_IDX (row * g_cols + col)
/* header bytes: rows little-endian in G_WR bytes, then cols little-endian in G_WC bytes */
#define HDR_BYTE(k) ((k) < G_WR ? spec_ext_byte(g_rows, (k)) : spec_ext_byte(g_cols, (k)-G_WR))
#define REQ_HDR(p)                                                                     \
    __CPROVER_requires(g_cols >= 1 && g_sparse <= 1 && dimension == G_DIM)             \
    __CPROVER_requires(col < g_cols && (g_rows == 0 ? row == 0 : row < g_rows))        \
    __CPROVER_requires(g_r <= 45 && col < (1ULL << 45) &&                              \
                       (row == 0 || (row < (1ULL << g_r) && g_cols < (1ULL << (45 - g_r)))))
#define REQ_HDR_BYTES(p)                                                               \
    __CPROVER_requires(((const uint8_t *)(p))[0] == HDR_BYTE(0))                       \
    __CPROVER_requires(G_HDR < 2 || ((const uint8_t *)(p))[1] == HDR_BYTE(1))          \
    __CPROVER_requires(G_HDR < 3 || ((const uint8_t *)(p))[2] == HDR_BYTE(2))          \
    __CPROVER_requires(G_HDR < 4 || ((const uint8_t *)(p))[3] == HDR_BYTE(3))          \
    __CPROVER_requires(G_HDR < 5 || ((const uint8_t *)(p))[4] == HDR_BYTE(4))          \
    __CPROVER_requires(G_HDR < 6 || ((const uint8_t *)(p))[5] == HDR_BYTE(5))          \
    __CPROVER_requires(G_HDR < 7 || ((const uint8_t *)(p))[6] == HDR_BYTE(6))          \
    __CPROVER_requires(G_HDR < 8 || ((const uint8_t *)(p))[7] == HDR_BYTE(7))          \
    __CPROVER_requires(G_HDR < 9 || ((const uint8_t *)(p))[8] == HDR_BYTE(8))          \
    __CPROVER_requires(G_HDR < 10 || ((const uint8_t *)(p))[9] == HDR_BYTE(9))         \
    __CPROVER_requires(G_HDR < 11 || ((const uint8_t *)(p))[10] == HDR_BYTE(10))       \
    __CPROVER_requires(G_HDR < 12 || ((const uint8_t *)(p))[11] == HDR_BYTE(11))       \
    __CPROVER_requires(G_HDR < 13 || ((const uint8_t *)(p))[12] == HDR_BYTE(12))       \
    __CPROVER_requires(G_HDR < 14 || ((const uint8_t *)(p))[13] == HDR_BYTE(13))       \
    __CPROVER_requires(G_HDR < 15 || ((const uint8_t *)(p))[14] == HDR_BYTE(14))       \
    __CPROVER_requires(G_HDR < 16 || ((const uint8_t *)(p))[15] == HDR_BYTE(15))
/* byte-cell object: ends right after the addressed cell (any access beyond is a pointer violation) */
#define CELL_OFF(w) (G_HDR + CELL_IDX * (uint64_t)(w))
#define REQ_CELLS(p, w)                                                                \
    REQ_HDR(p)                                                                         \
    __CPROVER_requires(FRESH(p, CELL_OFF(w) + (w)))                                    \
    REQ_HDR_BYTES(p)                                                                   \
    __CPROVER_requires(g_k < CELL_OFF(w) + (w) && g_off == CELL_OFF(w))
/* float/double cells go through memcpy, which CBMC cannot encode on an object of symbolic size:
 * these four accessors are proved for matrix objects of SMALL_OBJ bytes (any cell inside) */
#define SMALL_OBJ 2048
#define REQ_CELLS_SMALL(p, w)                                                          \
    REQ_HDR(p)                                                                         \
    __CPROVER_requires(CELL_OFF(w) + (w) <= SMALL_OBJ)                                 \
    __CPROVER_requires(FRESH(p, SMALL_OBJ))                                            \
    REQ_HDR_BYTES(p)                                                                   \
    __CPROVER_requires(g_k < SMALL_OBJ && g_off == CELL_OFF(w))
#define U8(p) ((const uint8_t *)(p))
/* the cell's bytes hold v little-endian; every other byte (header included) is unchanged */
#define ENS_CELL_WRITTEN(p, w, v)                                                      \
    __CPROVER_ensures((g_k >= CELL_OFF(w) && g_k < CELL_OFF(w) + (w))                  \
                          ? U8(p)[g_k] == spec_ext_byte((v), (unsigned)(g_k - CELL_OFF(w))) \
                          : U8(p)[g_k] == __CPROVER_old(U8(p)[g_k]))
#define LE_AT(p, off, w)                                                               \
    ((uint64_t)U8(p)[(off)] | ((w) > 1 ? (uint64_t)U8(p)[(off) + 1] << 8 : 0) | ((w) > 2 ? (uint64_t)U8(p)[(off) + 2] << 16 : 0) | \
     ((w) > 3 ? (uint64_t)U8(p)[(off) + 3] << 24 : 0) | ((w) > 4 ? (uint64_t)U8(p)[(off) + 4] << 32 : 0) |                        \
     ((w) > 5 ? (uint64_t)U8(p)[(off) + 5] << 40 : 0) | ((w) > 6 ? (uint64_t)U8(p)[(off) + 6] << 48 : 0) |                        \
     ((w) > 7 ? (uint64_t)U8(p)[(off) + 7] << 56 : 0))
static inline uint32_t f32_bits(float f) { union { float f; uint32_t u; } x; x.f = f; return x.u; }
static inline uint64_t f64_bits(double f) { union { double f; uint64_t u; } x; x.f = f; return x.u; }
/* bit cells */
#define BIT_BYTE (G_HDR + CELL_IDX / 8)
#define BIT_POS (CELL_IDX % 8)
#define REQ_BITS(p)                                                                    \
    REQ_HDR(p)                                                                         \
    __CPROVER_requires(FRESH(p, BIT_BYTE + 1))                                         \
    REQ_HDR_BYTES(p)                                                                   \
    __CPROVER_requires(g_k < BIT_BYTE + 1 && g_off == BIT_BYTE)
#define ENS_BIT_IS(p, val)                                                             \
    __CPROVER_ensures(g_k == BIT_BYTE                                                  \
        ? U8(p)[g_k] == (uint8_t)((__CPROVER_old(U8(p)[g_k]) & ~(1u << BIT_POS)) | ((unsigned)(val) << BIT_POS)) \
        : U8(p)[g_k] == __CPROVER_old(U8(p)[g_k]))

#ifndef VERIF_NATIVE
bool varintDimensionPack(const size_t row, const size_t col, uint64_t *result, varintDimensionPacked *dimension)
    __CPROVER_requires(FRESH(result, sizeof(uint64_t)) && FRESH(dimension, sizeof(varintDimensionPacked)))
    __CPROVER_assigns(*result, *dimension)
    __CPROVER_ensures(RET == (spec_packed_level(MAXU(row, col)) != 0))
    __CPROVER_ensures(!RET || (*dimension == spec_packed_level(MAXU(row, col)) &&
                               (*result >> (4 * *dimension)) == row && (*result & ((1ULL << (4 * *dimension)) - 1)) == col));

void varintDimensionUnpack(size_t *rows, size_t *cols, const uint64_t packed, const varintDimensionPacked dimension)
    __CPROVER_requires(FRESH(rows, sizeof(size_t)) && FRESH(cols, sizeof(size_t)))
    __CPROVER_requires(dimension >= 1 && dimension <= 8 && g_rows < (1ULL << (4 * dimension)) && g_cols < (1ULL << (4 * dimension)))
    __CPROVER_requires(packed == ((g_rows << (4 * dimension)) | g_cols))
    __CPROVER_assigns(*rows, *cols)
    __CPROVER_ensures(*rows == g_rows && *cols == g_cols);

varintDimensionPair varintDimensionPairDimension(const size_t rows, const size_t cols)
    __CPROVER_requires(cols >= 1)
    __CPROVER_assigns()
    __CPROVER_ensures(RET == SPEC_PAIR(spec_row_width(rows), spec_col_width(cols), 0))
    /* the header-reading macros agree with what was packed */
    __CPROVER_ensures(VARINT_DIMENSION_PAIR_WIDTH_ROW_COUNT(RET) == spec_row_width(rows))
    __CPROVER_ensures(VARINT_DIMENSION_PAIR_WIDTH_COL_COUNT(RET) == spec_col_width(cols))
    __CPROVER_ensures(VARINT_DIMENSION_PAIR_BYTE_LENGTH(RET) == spec_row_width(rows) + spec_col_width(cols));

#define ENC_BYTE(k) ((k) < spec_row_width(row) ? spec_ext_byte(row, (k)) : spec_ext_byte(col, (k)-spec_row_width(row)))
#define ENC_LEN (spec_row_width(row) + spec_col_width(col))
varintDimensionPair varintDimensionPairEncode(void *dst, const size_t row, const size_t col)
    __CPROVER_requires(col >= 1)
    __CPROVER_requires(FRESH(dst, ENC_LEN))     /* exactly the announced number of bytes */
    __CPROVER_assigns(__CPROVER_object_whole(dst))
    __CPROVER_ensures(RET == SPEC_PAIR(spec_row_width(row), spec_col_width(col), 0))
    __CPROVER_ensures(VARINT_DIMENSION_PAIR_BYTE_LENGTH(RET) == ENC_LEN)
    __CPROVER_ensures(g_k >= ENC_LEN || U8(dst)[g_k] == ENC_BYTE(g_k));

/* the shared offset helper: header length + (row * cols + col) * width, cols read from the header */
static inline size_t getEntryByteOffset(const void *_src, const size_t row, const size_t col,
                                        const varintWidth entryWidthBytes, const varintDimensionPair dimension)
    __CPROVER_requires(entryWidthBytes >= 1 && entryWidthBytes <= 8)
    REQ_HDR(_src)
    __CPROVER_requires(__CPROVER_r_ok(_src, G_HDR))
    REQ_HDR_BYTES(_src)
    __CPROVER_assigns()
    __CPROVER_ensures(RET == CELL_OFF(entryWidthBytes));

uint64_t varintDimensionPairEntryGetUnsigned(const void *_src, const size_t row, const size_t col,
                                             const varintWidth entryWidthBytes, const varintDimensionPair dimension)
    __CPROVER_requires(entryWidthBytes >= 1 && entryWidthBytes <= 8)
    REQ_CELLS(_src, entryWidthBytes)
    __CPROVER_assigns()
    __CPROVER_ensures(RET == LE_AT(_src, CELL_OFF(entryWidthBytes), entryWidthBytes));

void varintDimensionPairEntrySetUnsigned(void *_dst, const size_t row, const size_t col, const uint64_t entryValue,
                                         const varintWidth entryWidthBytes, const varintDimensionPair dimension)
    __CPROVER_requires(entryWidthBytes >= 1 && entryWidthBytes <= 8 && entryValue <= spec_ext_max(entryWidthBytes))
    REQ_CELLS(_dst, entryWidthBytes)
    __CPROVER_assigns(__CPROVER_object_upto((uint8_t *)_dst + g_off, entryWidthBytes))
    ENS_CELL_WRITTEN(_dst, entryWidthBytes, entryValue);

void varintDimensionPairEntrySetFloat(void *_dst, const size_t row, const size_t col, const float entryValue, const varintDimensionPair dimension)
    REQ_CELLS_SMALL(_dst, 4)
    __CPROVER_assigns(__CPROVER_object_upto((uint8_t *)_dst + g_off, 4))
    ENS_CELL_WRITTEN(_dst, 4, (uint64_t)f32_bits(entryValue));
float varintDimensionPairEntryGetFloat(const void *_src, const size_t row, const size_t col, const varintDimensionPair dimension)
    REQ_CELLS_SMALL(_src, 4)
    __CPROVER_assigns()
    __CPROVER_ensures(f32_bits(RET) == (uint32_t)LE_AT(_src, CELL_OFF(4), 4));
void varintDimensionPairEntrySetDouble(void *_dst, const size_t row, const size_t col, const double entryValue, const varintDimensionPair dimension)
    REQ_CELLS_SMALL(_dst, 8)
    __CPROVER_assigns(__CPROVER_object_upto((uint8_t *)_dst + g_off, 8))
    ENS_CELL_WRITTEN(_dst, 8, f64_bits(entryValue));
double varintDimensionPairEntryGetDouble(const void *_src, const size_t row, const size_t col, const varintDimensionPair dimension)
    REQ_CELLS_SMALL(_src, 8)
    __CPROVER_assigns()
    __CPROVER_ensures(f64_bits(RET) == LE_AT(_src, CELL_OFF(8), 8));

bool varintDimensionPairEntryGetBit(const void *_src, const size_t row, const size_t col, const varintDimensionPair dimension)
    REQ_BITS(_src)
    __CPROVER_assigns()
    __CPROVER_ensures(RET == ((U8(_src)[BIT_BYTE] >> BIT_POS) & 1));
void varintDimensionPairEntrySetBit(void *_dst, const size_t row, const size_t col, const bool setBit, const varintDimensionPair dimension)
    __CPROVER_requires(setBit == false || setBit == true) /* a _Bool holds 0 or 1 */
    REQ_BITS(_dst)
    __CPROVER_assigns(((uint8_t *)_dst)[g_off])
    ENS_BIT_IS(_dst, setBit ? 1 : 0);      /* setting to false clears */
bool varintDimensionPairEntryToggleBit(void *_dst, const size_t row, const size_t col, const varintDimensionPair dimension)
    REQ_BITS(_dst)
    __CPROVER_assigns(((uint8_t *)_dst)[g_off])
    __CPROVER_ensures(RET == ((__CPROVER_old(U8(_dst)[BIT_BYTE]) >> BIT_POS) & 1))
    ENS_BIT_IS(_dst, RET ? 0 : 1);
#endif

#include "varintDimension.c"
#include "varintExternal.c"

/* macros: pair/depair over all 9 x 8 x 2 combinations; unpack macro */
#ifndef VERIF_NATIVE
bool w_dimPairDepair(unsigned wr, unsigned wc, unsigned sp)
    __CPROVER_requires(wr <= 8 && wc >= 1 && wc <= 8 && sp <= 1)
    __CPROVER_assigns() __CPROVER_ensures(RET == true)
#else
bool w_dimPairDepair(unsigned wr, unsigned wc, unsigned sp)
#endif
{
    unsigned dim = VARINT_DIMENSION_PAIR_PAIR(wr, wc, sp);
    unsigned x, y;
    VARINT_DIMENSION_PAIR_DEPAIR(x, y, dim);
    return x == wr && y == wc && VARINT_DIMENSION_PAIR_IS_SPARSE(dim) == sp && VARINT_DIMENSION_PAIR_BYTE_LENGTH(dim) == wr + wc &&
           dim <= 255;
}
#ifndef VERIF_NATIVE
bool w_dimUnpackMacro(uint64_t r, uint64_t c, unsigned dimension)
    __CPROVER_requires(dimension >= 1 && dimension <= 8 && r < (1ULL << (4 * dimension)) && c < (1ULL << (4 * dimension)))
    __CPROVER_assigns() __CPROVER_ensures(RET == true)
#else
bool w_dimUnpackMacro(uint64_t r, uint64_t c, unsigned dimension)
#endif
{
    uint64_t packed = (r << (4 * dimension)) | c, x, y;
    varintDimensionUnpack_(x, y, packed, dimension);
    return x == r && y == c;
}
/* static helper: header decode */
#ifndef VERIF_NATIVE
bool w_dimPairDecode(uint64_t rows, uint64_t cols)
    __CPROVER_requires(cols >= 1) __CPROVER_assigns() __CPROVER_ensures(RET == true)
#else
bool w_dimPairDecode(uint64_t rows, uint64_t cols)
#endif
{
    uint8_t hdr[18];
    uint8_t guard = (uint8_t)(rows ^ cols ^ 0x5a);
    unsigned n = spec_row_width(rows) + spec_col_width(cols);
    hdr[n] = guard;
    varintDimensionPair d = varintDimensionPairEncode(hdr, rows, cols);
    size_t x = ~rows, y = ~cols;
    varintDimensionPairDecode(hdr, &x, &y, d);
    return x == rows && y == cols && hdr[n] == guard && VARINT_DIMENSION_PAIR_BYTE_LENGTH(d) == n;
}

#ifndef VERIF_NATIVE
#define SETG() uint64_t gr_, gc_, gk_, gv_, go_; unsigned gs_, gsh_; g_off = go_; g_rows = gr_; g_cols = gc_; g_k = gk_; g_v = gv_; g_sparse = gs_; g_r = gsh_
void H_dimPack(void) { size_t row, col; uint64_t *res; varintDimensionPacked *dim; varintDimensionPack(row, col, res, dim); CANARY(); }
void H_dimUnpack(void) { SETG(); size_t *r, *c; uint64_t packed; varintDimensionPacked dim; varintDimensionUnpack(r, c, packed, dim); CANARY(); }
void H_dimPairDimension(void) { size_t rows, cols; varintDimensionPairDimension(rows, cols); CANARY(); }
void H_dimPairEncode(void) { SETG(); void *dst; size_t row, col; varintDimensionPairEncode(dst, row, col); CANARY(); }
void H_dimPairDepair(void) { unsigned wr, wc, sp; w_dimPairDepair(wr, wc, sp); CANARY(); }
void H_dimUnpackMacro(void) { uint64_t r, c; unsigned dimension; w_dimUnpackMacro(r, c, dimension); CANARY(); }
void H_dimPairDecode(void) { uint64_t rows, cols; w_dimPairDecode(rows, cols); CANARY(); }
void H_dimEntryOffset(void) {
    SETG(); size_t row, col; varintWidth w; varintDimensionPair dimension;
    uint8_t *p = malloc(G_HDR); __CPROVER_assume(p != NULL);
    getEntryByteOffset(p, row, col, w, dimension); CANARY();
}
void H_dimGetUnsigned(void) { SETG(); void *p; size_t row, col; varintWidth w; varintDimensionPair dimension; varintDimensionPairEntryGetUnsigned(p, row, col, w, dimension); CANARY(); }
void H_dimSetUnsigned(void) { SETG(); void *p; size_t row, col; uint64_t v; varintWidth w; varintDimensionPair dimension; varintDimensionPairEntrySetUnsigned(p, row, col, v, w, dimension); CANARY(); }
void H_dimSetFloat(void) { SETG(); void *p; size_t row, col; float v; varintDimensionPair dimension; varintDimensionPairEntrySetFloat(p, row, col, v, dimension); CANARY(); }
void H_dimGetFloat(void) { SETG(); void *p; size_t row, col; varintDimensionPair dimension; varintDimensionPairEntryGetFloat(p, row, col, dimension); CANARY(); }
void H_dimSetDouble(void) { SETG(); void *p; size_t row, col; double v; varintDimensionPair dimension; varintDimensionPairEntrySetDouble(p, row, col, v, dimension); CANARY(); }
void H_dimGetDouble(void) { SETG(); void *p; size_t row, col; varintDimensionPair dimension; varintDimensionPairEntryGetDouble(p, row, col, dimension); CANARY(); }
void H_dimGetBit(void) { SETG(); void *p; size_t row, col; varintDimensionPair dimension; varintDimensionPairEntryGetBit(p, row, col, dimension); CANARY(); }
void H_dimSetBit(void) { SETG(); void *p; size_t row, col; bool b; varintDimensionPair dimension; varintDimensionPairEntrySetBit(p, row, col, b, dimension); CANARY(); }
void H_dimToggleBit(void) { SETG(); void *p; size_t row, col; varintDimensionPair dimension; varintDimensionPairEntryToggleBit(p, row, col, dimension); CANARY(); }
#else
#include "dimension_native.h"
#endif
RP_MAIN()
