/* Elias gamma / delta codec: /repo/src/varintElias.c.
 *   M1  bit counts against the mathematical definitions; single-code encode at an arbitrary bit position: exact bit
 *       pattern (ghost bit), bit count, neighbours untouched; decode inverse (all values >= 1); bit reader never reads
 *       at or beyond totalBits (arbitrary contents); MaxBytes formulas
 *   M2  array decoders: at most maxCount outputs and no read at/after ceil(srcBits/8) bytes for ARBITRARY input (C13, C14)
 *   M3  array round trip / size / metadata for ELIAS_N elements */
#include "cmacros.h"
#include "spec_scalar.h"
#include "varint.h"
#include "varintElias.h"
#ifndef ELIAS_N
#define ELIAS_N 2
#endif
#ifndef ELIAS_INIT_MAXCAP
#define ELIAS_INIT_MAXCAP 64
#endif
#ifndef ELIAS_MAXCOUNT
#define ELIAS_MAXCOUNT (1ULL << 32)
#endif

/* mathematical definitions */
static inline unsigned spec_log2(uint64_t v) {   /* floor(log2 v), loop-free so that contracts may call it */
    unsigned n = 0;
    if (v >> 32) { n += 32; v >>= 32; }
    if (v >> 16) { n += 16; v >>= 16; }
    if (v >> 8) { n += 8; v >>= 8; }
    if (v >> 4) { n += 4; v >>= 4; }
    if (v >> 2) { n += 2; v >>= 2; }
    if (v >> 1) { n += 1; }
    return n;
}
static inline size_t spec_gamma_bits(uint64_t v) { return 2 * (size_t)spec_log2(v) + 1; }
static inline size_t spec_delta_bits(uint64_t v) { return spec_gamma_bits((uint64_t)spec_log2(v) + 1) + spec_log2(v); }
/* bit j (0 = first written, MSB first) of the gamma code of v: n zeros, then the n+1 bits of v */
static inline unsigned spec_gamma_bit(uint64_t v, size_t j) { unsigned n = spec_log2(v); return j < n ? 0 : (unsigned)((v >> (2 * n - j)) & 1); }
/* bit j of the delta code: gamma(n+1), then the low n bits of v */
static inline unsigned spec_delta_bit(uint64_t v, size_t j) {
    unsigned n = spec_log2(v); size_t g = spec_gamma_bits((uint64_t)n + 1);
    return j < g ? spec_gamma_bit((uint64_t)n + 1, j) : (unsigned)((v >> (n - 1 - (j - g))) & 1);
}
#define BIT_AT(buf, pos) (((buf)[(pos) / 8] >> (7 - ((pos) % 8))) & 1u)

size_t g_srcBytes; /* ghost: size of the input object of the array decoders */

#ifndef VERIF_NATIVE
/* bit reader: arbitrary contents, exactly ceil(totalBits/8) readable bytes */
/* reader state: the enforce jobs make it a fresh object over a fresh input of exactly ceil(totalBits/8) bytes; at call
 * sites (replacement) the same facts are checked as validity of the caller's objects */
#define READER_FRESH(r) (FRESH(r, sizeof(*r)) && r->totalBits <= (1ULL << 40) && FRESH(r->buffer, (r->totalBits + 7) / 8))
#define READER_VALID(r) (__CPROVER_rw_ok(r, sizeof(*r)) && r->totalBits <= (1ULL << 40) && (r->totalBits == 0 || __CPROVER_r_ok(r->buffer, (r->totalBits + 7) / 8)))
#ifndef ELIAS_ENFORCE
#define ELIAS_ENFORCE 0
#endif
#if ELIAS_ENFORCE == 1
#define READER_OK_RD READER_FRESH
#else
#define READER_OK_RD READER_VALID
#endif
#if ELIAS_ENFORCE == 2
#define READER_OK_G READER_FRESH
#else
#define READER_OK_G READER_VALID
#endif
#if ELIAS_ENFORCE == 3
#define READER_OK_D READER_FRESH
#else
#define READER_OK_D READER_VALID
#endif
uint64_t varintBitReaderRead(varintBitReader *r, size_t nBits)
    __CPROVER_requires(nBits <= 64 && READER_OK_RD(r) && r->bitPos <= (1ULL << 41))
    __CPROVER_assigns(r->bitPos)
    __CPROVER_ensures(r->bitPos == __CPROVER_old(r->bitPos) + nBits)
    __CPROVER_ensures(nBits == 64 || RET < (1ULL << nBits))
    /* a bit that does not exist reads as zero */
    __CPROVER_ensures(__CPROVER_old(r->bitPos) < r->totalBits || RET == 0);

uint64_t varintEliasGammaDecode(varintBitReader *r)
    __CPROVER_requires(READER_OK_G(r) && r->bitPos <= (1ULL << 40))
    __CPROVER_assigns(r->bitPos)
    __CPROVER_ensures(r->bitPos > __CPROVER_old(r->bitPos) && r->bitPos <= __CPROVER_old(r->bitPos) + 127)
    __CPROVER_ensures(__CPROVER_old(r->bitPos) < r->totalBits || RET == 0);   /* nothing left: decode error, not a value */

uint64_t varintEliasDeltaDecode(varintBitReader *r)
    __CPROVER_requires(READER_OK_D(r) && r->bitPos <= (1ULL << 40))
    __CPROVER_assigns(r->bitPos)
    __CPROVER_ensures(r->bitPos > __CPROVER_old(r->bitPos) && r->bitPos <= __CPROVER_old(r->bitPos) + 127 + 64)
    __CPROVER_ensures(__CPROVER_old(r->bitPos) < r->totalBits || RET == 0);

/* ---- writer chain (sizes and metadata, C03/C16): writer state valid, room for the bits to come ---- */
#define WRITER_FRESH(w) (FRESH(w, sizeof(*w)) && w->capacity <= (1ULL << 40) && FRESH(w->buffer, w->capacity))
#define WRITER_VALID(w) (__CPROVER_rw_ok(w, sizeof(*w)) && w->capacity <= (1ULL << 40) && __CPROVER_w_ok(w->buffer, w->capacity))
#if ELIAS_ENFORCE == 4
#define WRITER_OK_W WRITER_FRESH
#else
#define WRITER_OK_W WRITER_VALID
#endif
#if ELIAS_ENFORCE == 5
#define WRITER_OK_G WRITER_FRESH
#else
#define WRITER_OK_G WRITER_VALID
#endif
#if ELIAS_ENFORCE == 6
#define WRITER_OK_D WRITER_FRESH
#else
#define WRITER_OK_D WRITER_VALID
#endif
void varintBitWriterWrite(varintBitWriter *w, uint64_t value, size_t nBits)
    __CPROVER_requires(nBits <= 64 && WRITER_OK_W(w) && w->bitPos <= (1ULL << 44) && w->bitPos + nBits <= 8 * w->capacity)
    __CPROVER_assigns(w->bitPos, __CPROVER_object_upto(w->buffer, w->capacity))
    __CPROVER_ensures(w->bitPos == __CPROVER_old(w->bitPos) + nBits);
size_t varintEliasGammaEncode(varintBitWriter *w, uint64_t value)
    /* sizes hold for value 0 too (one bit) in the NDEBUG build these jobs use; the codec's domain is value >= 1 */
    __CPROVER_requires(WRITER_OK_G(w) && w->bitPos <= (1ULL << 43) && w->bitPos + spec_gamma_bits(value) <= 8 * w->capacity)
    __CPROVER_assigns(w->bitPos, __CPROVER_object_upto(w->buffer, w->capacity))
    __CPROVER_ensures(RET == spec_gamma_bits(value) && RET <= 127 && w->bitPos == __CPROVER_old(w->bitPos) + RET);
size_t varintEliasDeltaEncode(varintBitWriter *w, uint64_t value)
    __CPROVER_requires(WRITER_OK_D(w) && w->bitPos <= (1ULL << 43) && w->bitPos + spec_delta_bits(value) <= 8 * w->capacity)
    __CPROVER_assigns(w->bitPos, __CPROVER_object_upto(w->buffer, w->capacity))
    __CPROVER_ensures(RET == spec_delta_bits(value) && RET <= 76 && w->bitPos == __CPROVER_old(w->bitPos) + RET);
void varintBitWriterInit(varintBitWriter *w, uint8_t *buffer, size_t capacity)
    __CPROVER_requires(__CPROVER_w_ok(w, sizeof(*w)) && capacity <= (1ULL << 40) && __CPROVER_w_ok(buffer, capacity))
    __CPROVER_assigns(*w, __CPROVER_object_upto(buffer, capacity))
    __CPROVER_ensures(w->buffer == buffer && w->bitPos == 0 && w->capacity == capacity);
/* array encoders: destination of exactly MaxBytes(count); values >= 1 is the codec's domain (the ghost element g_k
 * stands for every element; the element encoders' preconditions are checked at the call site for values[i]) */
size_t g_k;
#define ELIAS_ARRAY_ENCODER(fn, PER)                                                                     \
    size_t fn(uint8_t *dst, const uint64_t *values, size_t count, varintEliasMeta *meta)                 \
        __CPROVER_requires(count >= 1 && count <= ELIAS_MAXCOUNT && FRESH(values, count * sizeof(uint64_t)) && FRESH(meta, sizeof(*meta))) \
        __CPROVER_requires(FRESH(dst, (count * PER + 7) / 8))                                            \
        __CPROVER_assigns(__CPROVER_object_whole(dst), *meta)                                            \
        __CPROVER_ensures(RET <= (count * PER + 7) / 8 && RET >= (count + 7) / 8)                        \
        __CPROVER_ensures(meta->count == count && meta->encodedBytes == RET && RET == (meta->totalBits + 7) / 8) \
        __CPROVER_ensures(meta->totalBits >= count && meta->totalBits <= count * PER);
ELIAS_ARRAY_ENCODER(varintEliasGammaEncodeArray, 127)
ELIAS_ARRAY_ENCODER(varintEliasDeltaEncodeArray, 76)

/* array decoders: arbitrary bytes in an object of exactly ceil(srcBits/8) bytes, output of exactly maxCount elements */
#define ELIAS_ARRAY_DECODER(fn)                                                                          \
    size_t fn(const uint8_t *src, size_t srcBits, uint64_t *values, size_t maxCount)                     \
        __CPROVER_requires(srcBits <= (1ULL << 40) && g_srcBytes == (srcBits + 7) / 8 && FRESH(src, g_srcBytes)) \
        __CPROVER_requires(maxCount <= ELIAS_MAXCOUNT && FRESH(values, maxCount * sizeof(uint64_t)))      \
        __CPROVER_assigns(__CPROVER_object_upto(values, maxCount * sizeof(uint64_t)))                    \
        __CPROVER_ensures(RET <= maxCount && RET <= srcBits);
ELIAS_ARRAY_DECODER(varintEliasGammaDecodeArray)
ELIAS_ARRAY_DECODER(varintEliasDeltaDecodeArray)
#endif

#include "varintElias.c"

#ifndef VERIF_NATIVE
/* ---- M1: bit counts and bounds ---- */
bool w_eliasBits(uint64_t v)
    __CPROVER_requires(v >= 1) __CPROVER_assigns() __CPROVER_ensures(RET == true)
{
    return floorLog2(v) == spec_log2(v) && varintEliasGammaBits(v) == spec_gamma_bits(v) && varintEliasDeltaBits(v) == spec_delta_bits(v) &&
           varintEliasGammaBits(v) <= 127 && varintEliasDeltaBits(v) <= 76;
}
void H_eliasBits(void) { uint64_t v; w_eliasBits(v); CANARY(); }
bool w_eliasMaxBytes(size_t count)
    __CPROVER_requires(count <= ELIAS_MAXCOUNT) __CPROVER_assigns() __CPROVER_ensures(RET == true)
{ return varintEliasGammaMaxBytes(count) == (count * 127 + 7) / 8 && varintEliasDeltaMaxBytes(count) == (count * 76 + 7) / 8; }
void H_eliasMaxBytes(void) { size_t c; w_eliasMaxBytes(c); CANARY(); }

/* ---- M1: one code at an arbitrary bit position of a zeroed buffer (as varintBitWriterInit leaves it):
 * exact bit pattern, bit count, bits before and after untouched, decoder inverse, reader position ---- */
#define EL_BUF 32
bool w_eliasCode(uint64_t v, unsigned start, size_t g, _Bool delta)
    __CPROVER_requires(v >= 1 && start < 64 && g < 8 * EL_BUF) __CPROVER_assigns() __CPROVER_ensures(RET == true)
{
    uint8_t buf[EL_BUF];
    varintBitWriter w;
    varintBitWriterInit(&w, buf, EL_BUF);
    w.bitPos = start;
    size_t bits = delta ? varintEliasDeltaEncode(&w, v) : varintEliasGammaEncode(&w, v);
    size_t want = delta ? spec_delta_bits(v) : spec_gamma_bits(v);
    bool ok = bits == want && w.bitPos == start + want && varintBitWriterBytes(&w) == (start + want + 7) / 8;
    /* ghost bit g: inside the code it is the mathematical code bit, outside it is still zero */
    unsigned bit = BIT_AT(buf, g);
    if (g >= start && g < start + want) ok = ok && bit == (delta ? spec_delta_bit(v, g - start) : spec_gamma_bit(v, g - start));
    else ok = ok && bit == 0;
    varintBitReader r;
    varintBitReaderInit(&r, buf, 8 * EL_BUF);
    r.bitPos = start;
    uint64_t back = delta ? varintEliasDeltaDecode(&r) : varintEliasGammaDecode(&r);
    return ok && back == v && r.bitPos == start + want;
}
/* ELIAS_CLASS=k (quick tier): the same contract enforced for the values of one bit-length class 2^k <= v < 2^(k+1) only;
 * the restriction is an assumption of the harness, not of the contract, and is reported as a stated bound */
void H_eliasCode(void) {
    uint64_t v; unsigned s; size_t g; _Bool d = ELIAS_DELTA;
#ifdef ELIAS_CLASS
    __CPROVER_assume((v >> ELIAS_CLASS) == 1);
#endif
    w_eliasCode(v, s, g, d); CANARY();
}

/* ---- M1: readers on arbitrary input ---- */
void H_eliasReaderRead(void) { varintBitReader *r; size_t n; varintBitReaderRead(r, n); CANARY(); }
void H_eliasGammaDecode(void) { varintBitReader *r; varintEliasGammaDecode(r); CANARY(); }
void H_eliasDeltaDecode(void) { varintBitReader *r; varintEliasDeltaDecode(r); CANARY(); }

/* ---- M2: writer chain ---- */
void H_eliasWriterWrite(void) { varintBitWriter *w; uint64_t v; size_t n; varintBitWriterWrite(w, v, n); CANARY(); }
void H_eliasGammaEncode(void) { varintBitWriter *w; uint64_t v; varintEliasGammaEncode(w, v); CANARY(); }
void H_eliasDeltaEncode(void) { varintBitWriter *w; uint64_t v; varintEliasDeltaEncode(w, v); CANARY(); }
void H_eliasWriterInit(void) {
    size_t cap; __CPROVER_assume(cap <= ELIAS_INIT_MAXCAP);
    uint8_t *b = malloc(cap); __CPROVER_assume(b != NULL); varintBitWriter w;
    varintBitWriterInit(&w, b, cap); CANARY();
}
void H_eliasGammaEncodeArray(void) { uint8_t *d; uint64_t *v; size_t c; varintEliasMeta *m; varintEliasGammaEncodeArray(d, v, c, m); CANARY(); }
void H_eliasDeltaEncodeArray(void) { uint8_t *d; uint64_t *v; size_t c; varintEliasMeta *m; varintEliasDeltaEncodeArray(d, v, c, m); CANARY(); }

/* ---- M2: array decoders ---- */
void H_eliasGammaDecodeArray(void) { size_t sb; g_srcBytes = sb; uint8_t *src; size_t bits; uint64_t *v; size_t mc; varintEliasGammaDecodeArray(src, bits, v, mc); CANARY(); }
void H_eliasDeltaDecodeArray(void) { size_t sb; g_srcBytes = sb; uint8_t *src; size_t bits; uint64_t *v; size_t mc; varintEliasDeltaDecodeArray(src, bits, v, mc); CANARY(); }

/* ---- M3: array decoders on hostile input, independent of the loop-contract weave (bounded: short inputs) ---- */
#ifndef ELIAS_HOSTILE_BITS
#define ELIAS_HOSTILE_BITS 16
#endif
void H_eliasDecodeHostile(void) {
    size_t bits; __CPROVER_assume(bits <= ELIAS_HOSTILE_BITS);
    uint8_t *src = malloc((bits + 7) / 8); __CPROVER_assume(src != NULL);   /* exactly the declared bytes, arbitrary contents */
    size_t cap; __CPROVER_assume(cap <= 2);
    uint64_t out[3]; out[2] = 0x5a5a5a5a5a5a5a5aULL; uint64_t o1 = out[1], o0 = out[0];
    _Bool delta = ELIAS_DELTA;
    size_t d = delta ? varintEliasDeltaDecodeArray(src, bits, out, cap) : varintEliasGammaDecodeArray(src, bits, out, cap);
    __CPROVER_assert(d <= cap && d <= bits, "Elias hostile input: short result");
    __CPROVER_assert(out[2] == 0x5a5a5a5a5a5a5a5aULL && (cap >= 2 || out[1] == o1) && (cap >= 1 || out[0] == o0), "Elias hostile input: nothing beyond the capacity");
    CANARY();
}

/* ---- M3: arrays ---- */
void H_eliasRoundTrip(void) {
    size_t count; __CPROVER_assume(count >= 1 && count <= ELIAS_N);
    uint64_t v[ELIAS_N], out[ELIAS_N + 1]; size_t k; __CPROVER_assume(k < count);
    for (unsigned i = 0; i < ELIAS_N; i++) __CPROVER_assume(v[i] >= 1);
    out[ELIAS_N] = 0x5a5a5a5a5a5a5a5aULL;
    _Bool delta = ELIAS_DELTA;
    size_t maxb = delta ? varintEliasDeltaMaxBytes(count) : varintEliasGammaMaxBytes(count);
    uint8_t buf[(ELIAS_N * 127 + 7) / 8 + 1]; buf[(ELIAS_N * 127 + 7) / 8] = 0x5a;
    varintEliasMeta m; _Bool withMeta;
    size_t n = delta ? varintEliasDeltaEncodeArray(buf, v, count, withMeta ? &m : NULL) : varintEliasGammaEncodeArray(buf, v, count, withMeta ? &m : NULL);
    __CPROVER_assert(n <= maxb && buf[(ELIAS_N * 127 + 7) / 8] == 0x5a, "Elias: size within MaxBytes");
    size_t bits = 0;
    for (unsigned i = 0; i < ELIAS_N; i++) if (i < count) bits += delta ? spec_delta_bits(v[i]) : spec_gamma_bits(v[i]);
    __CPROVER_assert(n == (bits + 7) / 8, "Elias: returned bytes == ceil(sum of code lengths / 8)");
    __CPROVER_assert(!withMeta || (m.count == count && m.totalBits == bits && m.encodedBytes == n), "Elias: metadata");
    size_t cap; __CPROVER_assume(cap <= ELIAS_N);
    size_t d = delta ? varintEliasDeltaDecodeArray(buf, bits, out, cap) : varintEliasGammaDecodeArray(buf, bits, out, cap);
    __CPROVER_assert(d == (cap < count ? cap : count), "Elias: decodes min(capacity, count) values from exactly the written bits");
    __CPROVER_assert(k >= d || out[k] == v[k], "Elias: round trip");
    __CPROVER_assert(out[ELIAS_N] == 0x5a5a5a5a5a5a5a5aULL, "Elias: nothing beyond the output array");
    __CPROVER_assert((delta ? varintEliasDeltaIsBeneficial(v, count) : varintEliasGammaIsBeneficial(v, count)) == (n < count * 8), "Elias: beneficial flag");
    CANARY();
}
#endif
