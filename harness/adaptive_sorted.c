/* varintAdaptiveCheckSorted alone (a translation unit with only varintAdaptive.c: loop contracts are applied to the
 * whole unit, and the other codecs' loops carry no clauses here) */
#include "cmacros.h"
#include "varint.h"
#include "varintAdaptive.h"
size_t g_j;   /* ghost: position of an arbitrary adjacent pair */
#ifndef VERIF_NATIVE
int varintAdaptiveCheckSorted(const uint64_t *values, size_t count)
    __CPROVER_requires(count <= (1ULL << 32) && FRESH(values, count * sizeof(uint64_t)) && (count < 2 || g_j < count - 1))
    __CPROVER_assigns()
    __CPROVER_ensures(RET == 1 || RET == -1 || RET == 0)
    __CPROVER_ensures(count < 2 || RET != 1 || values[g_j] <= values[g_j + 1])     /* "sorted" means every adjacent pair ascends */
    __CPROVER_ensures(count < 2 || RET != -1 || values[g_j] >= values[g_j + 1]);
#endif
#include "varintAdaptive.c"
#ifndef VERIF_NATIVE
void H_adCheckSorted(void) { size_t j; g_j = j; uint64_t *v; size_t c; varintAdaptiveCheckSorted(v, c); CANARY(); }
#endif
