/* Frame-of-reference codec: /repo/src/varintFOR.c.  One offset width per job (-DFOR_W=1..8):
 * constant multiplication keeps element addresses linear.
 *   -DFOR_META_NULL      encoder jobs: meta == NULL
 *   -DFOR_META_REUSE     encoder jobs: caller passes its own analysis (Analyze -> Size -> allocate -> Encode) */
#include "callee_scalar.h"
#include "varintTagged.h"
#include "varintExternal.h"
#include "varintFOR.h"
#ifndef FOR_W
#define FOR_W 2
#endif
#ifndef FOR_MAXCOUNT
#define FOR_MAXCOUNT (1ULL << 32)
#endif
#define M_TAGGED_LEN(v) ((v) <= 240 ? 1u : (v) <= 2287 ? 2u : (v) <= 67823 ? 3u : (v) <= 16777215ULL ? 4u : (v) <= 4294967295ULL ? 5u \
                       : (v) <= 1099511627775ULL ? 6u : (v) <= 281474976710655ULL ? 7u : (v) <= 72057594037927935ULL ? 8u : 9u)
#define M_EXT_LEN(v) ((v) <= 0xffULL ? 1u : (v) <= 0xffffULL ? 2u : (v) <= 0xffffffULL ? 3u : (v) <= 0xffffffffULL ? 4u \
                    : (v) <= 0xffffffffffULL ? 5u : (v) <= 0xffffffffffffULL ? 6u : (v) <= 0xffffffffffffffULL ? 7u : 8u)
#define FOR_HDR(min, count) (M_TAGGED_LEN(min) + 1u + M_TAGGED_LEN(count))
#define U8(p) ((const uint8_t *)(p))
#define W_MAX (FOR_W >= 8 ? UINT64_MAX : ((1ULL << (8 * (FOR_W % 8))) - 1))

/* ghosts */
uint64_t g_min;    /* frame minimum stored in the header */
uint64_t g_count;  /* element count stored in the header */
uint64_t g_k;      /* arbitrary element index */
uint64_t g_h;      /* arbitrary header byte index */
uint64_t g_hdr;    /* header length, pinned by a requires where the caller knows the minimum (loop frames may not hold ternaries) */

/* header layout from the documentation: tagged(min) | width byte | tagged(count) */
static inline uint8_t spec_for_hdr_byte(uint64_t min, unsigned w, uint64_t count, uint64_t k) {
    unsigned lm = spec_tagged_len(min);
    if (k < lm) return spec_tagged_byte(min, (unsigned)k);
    if (k == lm) return (uint8_t)w;
    return spec_tagged_byte(count, (unsigned)(k - lm - 1));
}

/* src holds a well-formed FOR encoding of g_count elements in an object of exactly that many bytes */
#define REQ_FOR_ENCODING(src)                                                                          \
    __CPROVER_requires(g_count >= 1 && g_count <= FOR_MAXCOUNT)                                        \
    __CPROVER_requires(FRESH(src, FOR_HDR(g_min, g_count) + g_count * FOR_W))                          \
    __CPROVER_requires(spec_tagged_announced(U8(src)[0]) == M_TAGGED_LEN(g_min) && spec_tagged_decode(U8(src)) == g_min) \
    __CPROVER_requires(U8(src)[M_TAGGED_LEN(g_min)] == FOR_W)                                          \
    __CPROVER_requires(spec_tagged_announced(U8(src)[M_TAGGED_LEN(g_min) + 1]) == M_TAGGED_LEN(g_count) && \
                       spec_tagged_decode(U8(src) + M_TAGGED_LEN(g_min) + 1) == g_count)
#define ELEM(src, k) (g_min + SPEC_LE_AT((src) + FOR_HDR(g_min, g_count) + (k) * FOR_W, FOR_W))

#ifndef VERIF_NATIVE
/* ---------------- sizing / analysis ---------------- */
varintWidth varintFORComputeWidth(const uint64_t range)
    __CPROVER_requires(1)
    __CPROVER_assigns()
    __CPROVER_ensures(RET == M_EXT_LEN(range));

size_t varintFORSize(const varintFORMeta *meta)
    __CPROVER_requires(__CPROVER_r_ok(meta, sizeof(*meta)))
    __CPROVER_assigns()
    __CPROVER_ensures(RET == FOR_HDR(meta->minValue, meta->count) + meta->count * (size_t)meta->offsetWidth);

/* Case split on the callee's result.  The encoders' "out" jobs (the encoder analyses by itself) are run once per
 * offset width W = 1..8 with -DFOR_CASE_WIDTH: there the *replaced* analysis contract additionally yields
 * offsetWidth == W.  The enforced contract (jobs for/Analyze, for/BatchAnalyze, for/ComputeWidth, compiled without the
 * define) proves offsetWidth == M_EXT_LEN(range), which lies in 1..8, so the eight cases are exhaustive: every concrete
 * run of the encoder is an instance of exactly one of the eight jobs. */
#ifdef FOR_CASE_WIDTH
#define FOR_CASE_WIDTH_ENS __CPROVER_ensures(meta->offsetWidth == FOR_W)
#else
#define FOR_CASE_WIDTH_ENS
#endif
void varintFORAnalyze(const uint64_t *values, const size_t count, varintFORMeta *meta)
    __CPROVER_requires(count >= 1 && count <= FOR_MAXCOUNT && g_k < count)
    __CPROVER_requires(__CPROVER_r_ok(values, count * sizeof(uint64_t)) && __CPROVER_w_ok(meta, sizeof(*meta)))
    __CPROVER_assigns(*meta)
    __CPROVER_ensures(meta->minValue <= values[g_k] && values[g_k] <= meta->maxValue)       /* for the arbitrary element g_k */
    __CPROVER_ensures(meta->minValue <= values[0] && values[0] <= meta->maxValue)
    __CPROVER_ensures(meta->range == meta->maxValue - meta->minValue && meta->offsetWidth == M_EXT_LEN(meta->range))
    __CPROVER_ensures(meta->count == count)
    FOR_CASE_WIDTH_ENS
    __CPROVER_ensures(meta->encodedSize == FOR_HDR(meta->minValue, count) + count * (size_t)meta->offsetWidth);

void varintFORBatchAnalyze(const uint64_t *values, const size_t count, varintFORMeta *meta)
    __CPROVER_requires(count >= 1 && count <= FOR_MAXCOUNT && g_k < count)
    __CPROVER_requires(__CPROVER_r_ok(values, count * sizeof(uint64_t)) && __CPROVER_w_ok(meta, sizeof(*meta)))
    __CPROVER_assigns(*meta)
    __CPROVER_ensures(meta->minValue <= values[g_k] && values[g_k] <= meta->maxValue)
    __CPROVER_ensures(meta->minValue <= values[0] && values[0] <= meta->maxValue)
    __CPROVER_ensures(meta->range == meta->maxValue - meta->minValue && meta->offsetWidth == M_EXT_LEN(meta->range))
    __CPROVER_ensures(meta->count == count)
    FOR_CASE_WIDTH_ENS
    __CPROVER_ensures(meta->encodedSize == FOR_HDR(meta->minValue, count) + count * (size_t)meta->offsetWidth);

/* ---------------- encoders ---------------- */
/* what the encoder leaves in dst, in terms of the analysis (MIN) it used */
#if defined(FOR_NO_CONTENT)
/* size and header bytes only */
#define ENS_FOR_ENCODED(MIN)                                                                             \
    __CPROVER_ensures(RET == FOR_HDR((MIN), count) + count * FOR_W)                                      \
    __CPROVER_ensures(g_h >= FOR_HDR((MIN), count) || dst[g_h] == spec_for_hdr_byte((MIN), FOR_W, count, g_h))
#elif defined(FOR_NO_HDRBYTES)
/* payload only (the loop frame is the whole destination, so the header bytes are not tracked across the loop) */
#define ENS_FOR_ENCODED(MIN)                                                                             \
    __CPROVER_ensures(RET == FOR_HDR((MIN), count) + count * FOR_W)                                      \
    __CPROVER_ensures(SPEC_LE_AT(dst + FOR_HDR((MIN), count) + g_k * FOR_W, FOR_W) == values[g_k] - (MIN))
#else
#define ENS_FOR_ENCODED(MIN)                                                                             \
    __CPROVER_ensures(RET == FOR_HDR((MIN), count) + count * FOR_W)                                      \
    __CPROVER_ensures(g_h >= FOR_HDR((MIN), count) || dst[g_h] == spec_for_hdr_byte((MIN), FOR_W, count, g_h)) \
    __CPROVER_ensures(SPEC_LE_AT(dst + FOR_HDR((MIN), count) + g_k * FOR_W, FOR_W) == values[g_k] - (MIN))
#endif
/* loop clauses of the encoders (contracts/for.loops) are written against these two macros:
 * when the caller supplies the analysis the header length is known up front (ghost g_hdr), the loop
 * frame is exactly the payload and the header bytes written before the loop stay known; otherwise the
 * minimum is only found inside the call and the loop frame is the whole destination object */
#if defined(FOR_META_REUSE) && !defined(FOR_NO_HDRBYTES)
#define FOR_LOOP_FRAME __CPROVER_object_upto(dst + g_hdr, count * FOR_W)
#define FOR_LOOP_HDR g_hdr
#elif defined(FOR_META_REUSE)
#define FOR_LOOP_FRAME __CPROVER_object_whole(dst)
#define FOR_LOOP_HDR g_hdr
#else
#define FOR_LOOP_FRAME __CPROVER_object_whole(dst)
#define FOR_LOOP_HDR FOR_HDR(meta->minValue, meta->count)
#endif
#ifdef FOR_NO_CONTENT
#define FOR_LOOP_CONTENT_INV
#else
#define FOR_LOOP_CONTENT_INV __CPROVER_loop_invariant(g_k >= i || SPEC_LE_AT(dst + FOR_LOOP_HDR + g_k * FOR_W, FOR_W) == values[g_k] - meta->minValue)
#endif
#ifdef FOR_META_REUSE
/* documented use: Analyze, size with varintFORSize, allocate exactly that, Encode with the same meta (C03: exact) */
#define FOR_ENCODER_CONTRACT(fn)                                                                         \
    size_t fn(uint8_t *dst, const uint64_t *values, const size_t count, varintFORMeta *meta)             \
        __CPROVER_requires(count >= 1 && count <= FOR_MAXCOUNT && g_k < count && g_h < 19)               \
        __CPROVER_requires(FRESH(values, count * sizeof(uint64_t)) && FRESH(meta, sizeof(*meta)))         \
        /* meta is a valid analysis of values: same count, this width, and it holds the arbitrary element */ \
        __CPROVER_requires(meta->count == count && meta->offsetWidth == FOR_W)                           \
        __CPROVER_requires(values[g_k] - meta->minValue <= W_MAX)                                        \
        __CPROVER_requires(g_h < FOR_HDR(meta->minValue, count) && g_hdr == FOR_HDR(meta->minValue, count)) \
        __CPROVER_requires(FRESH(dst, FOR_HDR(meta->minValue, count) + count * FOR_W)) /* == varintFORSize(meta) */ \
        __CPROVER_assigns(__CPROVER_object_whole(dst))                                                   \
        ENS_FOR_ENCODED(meta->minValue)                                                                  \
        __CPROVER_ensures(RET == FOR_HDR(meta->minValue, meta->count) + meta->count * (size_t)meta->offsetWidth);
#elif defined(FOR_META_NULL)
/* without a meta out-parameter nothing names the minimum the call chose: only safety, frame and the size range are stated
 * (the header and payload contents are covered by the two other variants, which run the same statements) */
#define FOR_ENCODER_CONTRACT(fn)                                                                         \
    size_t fn(uint8_t *dst, const uint64_t *values, const size_t count, varintFORMeta *meta)             \
        __CPROVER_requires(count >= 1 && count <= FOR_MAXCOUNT && g_k < count && meta == NULL)            \
        __CPROVER_requires(FRESH(values, count * sizeof(uint64_t)))                                      \
        __CPROVER_requires(FRESH(dst, 19 + count * 8))                                                   \
        __CPROVER_assigns(__CPROVER_object_whole(dst))                                                   \
        __CPROVER_ensures(RET >= 3 + count && RET <= 19 + count * 8);
#else
/* meta is an out-parameter describing some other (or no) array: the encoder analyses and reports (C16) */
#define FOR_ENCODER_CONTRACT(fn)                                                                         \
    size_t fn(uint8_t *dst, const uint64_t *values, const size_t count, varintFORMeta *meta)             \
        __CPROVER_requires(count >= 1 && count <= FOR_MAXCOUNT && g_k < count && g_h < 19)               \
        __CPROVER_requires(FRESH(values, count * sizeof(uint64_t)) && FRESH(meta, sizeof(*meta)))         \
        __CPROVER_requires(meta->count != count)                                                         \
        __CPROVER_requires(FRESH(dst, 19 + count * 8))                                                   \
        __CPROVER_assigns(__CPROVER_object_whole(dst), *meta)                                            \
        __CPROVER_ensures(meta->count == count && meta->offsetWidth >= 1 && meta->offsetWidth <= 8)       \
        __CPROVER_ensures(meta->minValue <= values[g_k] && values[g_k] <= meta->maxValue &&               \
                          meta->range == meta->maxValue - meta->minValue && meta->offsetWidth == M_EXT_LEN(meta->range)) \
        __CPROVER_ensures(meta->encodedSize == FOR_HDR(meta->minValue, count) + count * (size_t)meta->offsetWidth) \
        __CPROVER_ensures(meta->offsetWidth == FOR_W) /* the case this job covers, see FOR_CASE_WIDTH */   \
        /* header bytes are stated in the reuse variant only: here the header length is not known before the loop, so the \
         * loop frame is the whole destination and knowledge about the header does not survive the loop havoc */ \
        __CPROVER_ensures(RET == FOR_HDR(meta->minValue, count) + count * FOR_W)                         \
        __CPROVER_ensures(SPEC_LE_AT(dst + FOR_HDR(meta->minValue, count) + g_k * FOR_W, FOR_W) == values[g_k] - meta->minValue) \
        __CPROVER_ensures(RET == meta->encodedSize);
#endif
FOR_ENCODER_CONTRACT(varintFOREncode)
FOR_ENCODER_CONTRACT(varintFORBatchEncode)

/* ---------------- header readers (C16) ---------------- */
void varintFORReadMetadata(const uint8_t *src, varintFORMeta *meta)
    REQ_FOR_ENCODING(src)
    __CPROVER_requires(FRESH(meta, sizeof(*meta)))
    __CPROVER_assigns(*meta)
    __CPROVER_ensures(meta->minValue == g_min && meta->count == g_count && meta->offsetWidth == FOR_W)
    __CPROVER_ensures(meta->encodedSize == FOR_HDR(g_min, g_count) + g_count * FOR_W);
uint64_t varintFORGetMinValue(const uint8_t *src)
    REQ_FOR_ENCODING(src) __CPROVER_assigns() __CPROVER_ensures(RET == g_min);
size_t varintFORGetCount(const uint8_t *src)
    REQ_FOR_ENCODING(src) __CPROVER_assigns() __CPROVER_ensures(RET == g_count);
varintWidth varintFORGetOffsetWidth(const uint8_t *src)
    REQ_FOR_ENCODING(src) __CPROVER_assigns() __CPROVER_ensures(RET == FOR_W);

/* ---------------- decoders (C13 frame + C02 content) ---------------- */
#define FOR_DECODER_CONTRACT(fn)                                                                         \
    size_t fn(const uint8_t *src, uint64_t *values, const size_t maxCount)                               \
        REQ_FOR_ENCODING(src)                                                                            \
        __CPROVER_requires(maxCount <= FOR_MAXCOUNT && g_k < g_count)                                    \
        __CPROVER_requires(FRESH(values, maxCount * sizeof(uint64_t))) /* exactly the capacity */         \
        __CPROVER_assigns(__CPROVER_object_upto(values, maxCount * sizeof(uint64_t)))                    \
        __CPROVER_ensures(RET == (g_count > maxCount ? 0 : g_count))                                     \
        __CPROVER_ensures(RET == 0 || values[g_k] == ELEM(src, g_k));
FOR_DECODER_CONTRACT(varintFORDecode)
FOR_DECODER_CONTRACT(varintFORBatchDecode)

uint64_t varintFORGetAt(const uint8_t *src, const size_t index)
    REQ_FOR_ENCODING(src)
    __CPROVER_requires(index < g_count)
    __CPROVER_assigns()
    __CPROVER_ensures(RET == ELEM(src, index));   /* == what the full decoder stores at that index */

size_t varintFORDecodeBlock(const uint8_t *src, uint64_t *values, const size_t startIndex, const size_t blockSize)
    REQ_FOR_ENCODING(src)
    __CPROVER_requires(blockSize <= FOR_MAXCOUNT && startIndex <= FOR_MAXCOUNT && g_k < blockSize)
    __CPROVER_requires(FRESH(values, blockSize * sizeof(uint64_t)))
    __CPROVER_assigns(__CPROVER_object_upto(values, blockSize * sizeof(uint64_t)))
    __CPROVER_ensures(RET == (startIndex >= g_count ? 0 : (startIndex + blockSize > g_count ? g_count - startIndex : blockSize)))
    __CPROVER_ensures(g_k >= RET || values[g_k] == ELEM(src, startIndex + g_k));
#endif

#include "varintTagged.c"
#include "varintExternal.c"
#include "varintFOR.c"

#ifndef VERIF_NATIVE
#define SETG() uint64_t gm_, gc_, gk_, gh_, ghd_; g_min = gm_; g_count = gc_; g_k = gk_; g_h = gh_; g_hdr = ghd_
void H_forComputeWidth(void) { uint64_t r; varintFORComputeWidth(r); CANARY(); }
void H_forSize(void) { varintFORMeta m; varintFORSize(&m); CANARY(); }
void H_forAnalyze(void) { SETG(); size_t count; __CPROVER_assume(count >= 1 && count <= FOR_MAXCOUNT); uint64_t *v = malloc(count * sizeof(uint64_t)); __CPROVER_assume(v != NULL); varintFORMeta m; varintFORAnalyze(v, count, &m); CANARY(); }
void H_forBatchAnalyze(void) { SETG(); size_t count; __CPROVER_assume(count >= 1 && count <= FOR_MAXCOUNT); uint64_t *v = malloc(count * sizeof(uint64_t)); __CPROVER_assume(v != NULL); varintFORMeta m; varintFORBatchAnalyze(v, count, &m); CANARY(); }
void H_forEncode(void) { SETG(); uint8_t *dst; uint64_t *values; size_t count; varintFORMeta *meta; varintFOREncode(dst, values, count, meta); CANARY(); }
void H_forBatchEncode(void) { SETG(); uint8_t *dst; uint64_t *values; size_t count; varintFORMeta *meta; varintFORBatchEncode(dst, values, count, meta); CANARY(); }
/* bounded end-to-end composition on the real functions (no contracts involved): meta == NULL and meta as out-parameter,
 * Encode -> accessors -> Decode -> GetAt -> DecodeBlock, FOR_E2E_N elements, every width */
#ifndef FOR_E2E_BATCH
#define FOR_E2E_BATCH 0
#endif
#ifndef FOR_E2E_N
#define FOR_E2E_N 2
#endif
void H_forEndToEnd(void) {
    size_t count; __CPROVER_assume(count >= 1 && count <= FOR_E2E_N);
    uint64_t v[FOR_E2E_N]; uint64_t out[FOR_E2E_N]; uint8_t dst[19 + 8 * FOR_E2E_N];
    _Bool batch = FOR_E2E_BATCH, withMeta; size_t k; __CPROVER_assume(k < count);
    varintFORMeta m; m.count = 0;
    size_t n = batch ? varintFORBatchEncode(dst, v, count, withMeta ? &m : NULL) : varintFOREncode(dst, v, count, withMeta ? &m : NULL);
    __CPROVER_assert(n >= 3 + count && n <= 19 + 8 * count, "FOR e2e: encoded size within the documented range");
    __CPROVER_assert(!withMeta || (m.count == count && m.encodedSize == n && m.minValue <= v[k] && v[k] <= m.maxValue), "FOR e2e: reported metadata");
    __CPROVER_assert(varintFORGetCount(dst) == count, "FOR e2e: header count");
    __CPROVER_assert(varintFORGetMinValue(dst) <= v[k], "FOR e2e: header minimum");
    size_t d = batch ? varintFORBatchDecode(dst, out, count) : varintFORDecode(dst, out, count);
    __CPROVER_assert(d == count && out[k] == v[k], "FOR e2e: decode returns the original element");
    __CPROVER_assert(varintFORGetAt(dst, k) == v[k], "FOR e2e: random access agrees");
    uint64_t blk[FOR_E2E_N]; size_t start; __CPROVER_assume(start <= k);
    size_t b = varintFORDecodeBlock(dst, blk, start, count - start);
    __CPROVER_assert(b == count - start && blk[k - start] == v[k], "FOR e2e: block reader agrees");
    CANARY();
}
void H_forReadMetadata(void) { SETG(); uint8_t *src; varintFORMeta *m; varintFORReadMetadata(src, m); CANARY(); }
void H_forGetMinValue(void) { SETG(); uint8_t *src; varintFORGetMinValue(src); CANARY(); }
void H_forGetCount(void) { SETG(); uint8_t *src; varintFORGetCount(src); CANARY(); }
void H_forGetOffsetWidth(void) { SETG(); uint8_t *src; varintFORGetOffsetWidth(src); CANARY(); }
void H_forDecode(void) { SETG(); uint8_t *src; uint64_t *values; size_t maxCount; varintFORDecode(src, values, maxCount); CANARY(); }
void H_forBatchDecode(void) { SETG(); uint8_t *src; uint64_t *values; size_t maxCount; varintFORBatchDecode(src, values, maxCount); CANARY(); }
void H_forGetAt(void) { SETG(); uint8_t *src; size_t index; varintFORGetAt(src, index); CANARY(); }
void H_forDecodeBlock(void) { SETG(); uint8_t *src; uint64_t *values; size_t start, n; varintFORDecodeBlock(src, values, start, n); CANARY(); }
#endif
