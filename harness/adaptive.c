/* Adaptive codec: /repo/src/varintAdaptive.c.
 *   M1  varintAdaptiveSelectEncoding: selection stays inside the documented domain of the encoding it names
 *       (bitmap only for ascending input with as many distinct values as elements, all below 65536)
 *   M2  varintAdaptiveCheckSorted tells the truth about the array (ghost adjacent pair), any count
 *   M3  forced TAGGED / DELTA through EncodeWith -> GetEncodingType -> Decode: header byte, metadata, round trip, capacity */
#include "callee_scalar.h"
#include "varintTagged.h"
#include "varintExternal.h"
#include "varintAdaptive.h"
#ifndef AD_N
#define AD_N 2
#endif
#ifndef AD_TYPE
#define AD_TYPE 5
#endif
size_t g_j;   /* ghost: position of an arbitrary adjacent pair */

#ifndef VERIF_NATIVE
void qsort(void *base, size_t nmemb, size_t size, int (*compar)(const void *, const void *)) {
    __CPROVER_assert(size == sizeof(uint64_t), "qsort stub: 8-byte elements only");
    uint64_t *a = (uint64_t *)base;
    for (size_t i = 0; i < nmemb; i++)
        for (size_t j = i + 1; j < nmemb; j++)
            if (compar(&a[j], &a[i]) < 0) { uint64_t t = a[i]; a[i] = a[j]; a[j] = t; }
}
varintAdaptiveEncodingType varintAdaptiveSelectEncoding(const varintAdaptiveDataStats *stats)
    __CPROVER_requires(__CPROVER_r_ok(stats, sizeof(*stats)))
    __CPROVER_requires(stats->uniqueRatio >= 0.0f && stats->uniqueRatio <= 1.0f && stats->outlierRatio >= 0.0f && stats->outlierRatio <= 1.0f)
    __CPROVER_assigns()
    __CPROVER_ensures(RET == VARINT_ADAPTIVE_DELTA || RET == VARINT_ADAPTIVE_FOR || RET == VARINT_ADAPTIVE_PFOR ||
                      RET == VARINT_ADAPTIVE_DICT || RET == VARINT_ADAPTIVE_BITMAP || RET == VARINT_ADAPTIVE_TAGGED)
    /* documented domain of the bitmap encoding: strictly increasing values below 65536 */
    __CPROVER_ensures(RET != VARINT_ADAPTIVE_BITMAP || (stats->isSorted && stats->uniqueCount == stats->count && stats->fitsInBitmapRange && stats->count >= 2))
    __CPROVER_ensures(stats->count > 1 || RET == VARINT_ADAPTIVE_TAGGED);

#endif

#include "varintTagged.c"
#include "varintExternal.c"
#include "varintDelta.c"
#include "varintFOR.c"
#include "varintPFOR.c"
#include "varintDict.c"
#include "varintBitmap.c"
#include "varintAdaptive.c"

#ifndef VERIF_NATIVE
void H_adSelect(void) { varintAdaptiveDataStats s; varintAdaptiveSelectEncoding(&s); CANARY(); }

/* ---- M3: the analysis tells the truth about a two-element array (the facts the selection relies on) ---- */
void H_adAnalyze(void) {
    uint64_t v[2]; varintAdaptiveDataStats st;
    varintAdaptiveAnalyze(v, 2, &st);
    uint64_t lo = v[0] < v[1] ? v[0] : v[1], hi = v[0] < v[1] ? v[1] : v[0];
    __CPROVER_assert(st.count == 2 && st.minValue == lo && st.maxValue == hi && st.range == hi - lo, "adaptive analysis: count, min, max, range");
    __CPROVER_assert(st.fitsInBitmapRange == (hi < 65536), "adaptive analysis: bitmap range flag means every value is below 65536");
    __CPROVER_assert(st.isSorted == (v[0] <= v[1]) && st.isReverseSorted == (v[0] >= v[1] && !(v[0] <= v[1])), "adaptive analysis: sortedness flags");
    __CPROVER_assert(st.uniqueCount == (v[0] == v[1] ? 1 : 2), "adaptive analysis: distinct values");
    CANARY();
}
void H_adForced(void) {
    size_t count = AD_N;
    uint64_t v[AD_N], out[AD_N + 1]; size_t k; __CPROVER_assume(k < count);
    out[AD_N] = 0x5a5a5a5a5a5a5a5aULL;
    uint8_t buf[1 + 9 * AD_N + 16]; size_t g; __CPROVER_assume(g < sizeof(buf)); uint8_t before_g = buf[g];
    varintAdaptiveMeta m;
    size_t n = varintAdaptiveEncodeWith(buf, v, count, (varintAdaptiveEncodingType)AD_TYPE, &m);
    size_t maxb = varintAdaptiveMaxSize(count);
    __CPROVER_assert(n >= 1 + count && n <= maxb && (g < maxb || buf[g] == before_g), "adaptive: forced encoding stays within varintAdaptiveMaxSize");
    __CPROVER_assert(buf[0] == AD_TYPE && m.encodingType == AD_TYPE && varintAdaptiveGetEncodingType(buf) == AD_TYPE, "adaptive: first byte names the encoding and agrees with the reported choice");
    __CPROVER_assert(m.originalCount == count && m.encodedSize == n, "adaptive: metadata");
    size_t d = varintAdaptiveDecode(buf, out, count, NULL);
    __CPROVER_assert(d == count && out[k] == v[k] && out[AD_N] == 0x5a5a5a5a5a5a5a5aULL, "adaptive: forced encoding round trip");
    CANARY();
}
#endif
