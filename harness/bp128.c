/* 128-block bit packing: /repo/src/varintBP128.c (scalar paths; the SIMD branches are not compiled in this build).
 *   M1  BitsNeeded32/64 against floor(log2)+1; varintBP128MaxBytes formula; varintBP128GetCount on arbitrary bytes (C14)
 *   M3  partial-block paths of all four codec pairs (plain/delta x 32/64 bit): size within MaxBytes, metadata, capacity,
 *       round trip; BP_N values.  Full 128-value blocks are NOT reached by these jobs (stated in the evidence). */
#include "callee_scalar.h"
#include "varintTagged.h"
#include "varintExternal.h"
#include "varintBP128.h"
#ifndef BP_N
#define BP_N 2
#endif
#ifndef BP_BITS
#define BP_BITS 3
#endif
#ifndef BP_KIND
#define BP_KIND 0   /* 0 plain32, 1 delta32, 2 plain64, 3 delta64 */
#endif
static inline unsigned spec_log2_(uint64_t v) {
    unsigned n = 0;
    if (v >> 32) { n += 32; v >>= 32; }
    if (v >> 16) { n += 16; v >>= 16; }
    if (v >> 8) { n += 8; v >>= 8; }
    if (v >> 4) { n += 4; v >>= 4; }
    if (v >> 2) { n += 2; v >>= 2; }
    if (v >> 1) { n += 1; }
    return n;
}

size_t g_k;   /* ghost: arbitrary element index */
#ifndef VERIF_NATIVE
/* block width analysis: every element of the block fits the returned bit width (ghost element), any count */
uint8_t varintBP128MaxBitWidth64(const uint64_t *values, size_t count)
    __CPROVER_requires(count >= 1 && count <= (1ULL << 32) && g_k < count && FRESH(values, count * sizeof(uint64_t)))
    __CPROVER_assigns()
    __CPROVER_ensures(RET <= 64 && (RET == 64 || values[g_k] < (1ULL << RET)))
    __CPROVER_ensures(RET != 0 || values[g_k] == 0);
uint8_t varintBP128MaxBitWidth32(const uint32_t *values, size_t count)
    __CPROVER_requires(count >= 1 && count <= (1ULL << 32) && g_k < count && FRESH(values, count * sizeof(uint32_t)))
    __CPROVER_assigns()
    __CPROVER_ensures(RET <= 32 && (RET == 32 || values[g_k] < (1U << RET)))
    __CPROVER_ensures(RET != 0 || values[g_k] == 0);
size_t varintBP128GetCount(const uint8_t *src, size_t srcBytes)
    __CPROVER_requires(srcBytes <= 64 && FRESH(src, srcBytes))       /* arbitrary contents, exactly srcBytes bytes */
    __CPROVER_assigns()
    __CPROVER_ensures(srcBytes >= 1 && spec_tagged_announced(src[0]) <= srcBytes ? RET == spec_tagged_decode(src) : RET == 0);
#endif

#include "varintTagged.c"
#include "varintExternal.c"
#include "varintBP128.c"

#ifndef VERIF_NATIVE
bool w_bpBits(uint64_t v)
    __CPROVER_requires(1) __CPROVER_assigns() __CPROVER_ensures(RET == true)
{
    return varintBP128BitsNeeded64(v) == (v == 0 ? 0 : spec_log2_(v) + 1) &&
           varintBP128BitsNeeded32((uint32_t)v) == ((uint32_t)v == 0 ? 0 : spec_log2_((uint32_t)v) + 1);
}
void H_bpBits(void) { uint64_t v; w_bpBits(v); CANARY(); }
bool w_bpMaxBytes(size_t count)
    __CPROVER_requires(count <= (1ULL << 32)) __CPROVER_assigns() __CPROVER_ensures(RET == true)
{ return varintBP128MaxBytes(count) == (count / 128) * 1025 + (count % 128 ? 2 + (count % 128) * 8 : 0) + 9; }
void H_bpMaxBytes(void) { size_t c; w_bpMaxBytes(c); CANARY(); }
void H_bpMaxBitWidth64(void) { size_t k; g_k = k; uint64_t *v; size_t c; varintBP128MaxBitWidth64(v, c); CANARY(); }
void H_bpMaxBitWidth32(void) { size_t k; g_k = k; uint32_t *v; size_t c; varintBP128MaxBitWidth32(v, c); CANARY(); }
void H_bpGetCount(void) { uint8_t *s; size_t n; varintBP128GetCount(s, n); CANARY(); }

#if BP_KIND < 2
typedef uint32_t bp_t;
#else
typedef uint64_t bp_t;
#endif
void H_bpRoundTrip(void) {
    size_t count = BP_N;                 /* constant per job; below 128, i.e. the partial-block paths */
    bp_t v[BP_N], out[BP_N + 1]; size_t k; __CPROVER_assume(k < count);
#if BP_KIND == 1 || BP_KIND == 3
    for (unsigned i = 1; i < BP_N; i++) __CPROVER_assume(v[i] >= v[i - 1]);   /* delta forms: non-decreasing input */
#endif
    /* values (and successive differences) below 2^BP_BITS: keeps every bit loop within BP_BITS iterations */
    for (unsigned i = 0; i < BP_N; i++) __CPROVER_assume(v[i] < ((bp_t)1 << BP_BITS));
    out[BP_N] = (bp_t)0x5a5a5a5a5a5a5a5aULL;
    uint8_t buf[2 + 8 * BP_N + 9 + 8]; size_t g; __CPROVER_assume(g < sizeof(buf));
    uint8_t before_g = buf[g];
    size_t maxb = varintBP128MaxBytes(count);
    varintBP128Meta m;
#if BP_KIND == 0
    size_t n = varintBP128Encode32(buf, v, count, &m);
#elif BP_KIND == 1
    size_t n = varintBP128DeltaEncode32(buf, v, count, &m);
#elif BP_KIND == 2
    size_t n = varintBP128Encode64(buf, v, count, &m);
#else
    size_t n = varintBP128DeltaEncode64(buf, v, count, &m);
#endif
    __CPROVER_assert(n >= 1 && n <= maxb && (g < maxb || buf[g] == before_g), "BP128: encoder stays within varintBP128MaxBytes");
    __CPROVER_assert(m.count == count && m.encodedBytes == n && m.maxBitWidth <= 8 * sizeof(bp_t), "BP128: metadata count / encodedBytes / maxBitWidth");
#if BP_KIND == 0 || BP_KIND == 2
    __CPROVER_assert(m.blockCount == 1 && m.lastBlockSize == count, "BP128: block count and last block size");
#else
    __CPROVER_assert(m.blockCount == (count > 1 ? 1 : 0) && m.lastBlockSize == count - 1, "BP128 delta: block count and last block size (deltas)");
#endif
#if BP_KIND >= 2
    __CPROVER_assert(BP_KIND == 3 || varintBP128GetCount(buf, n) == count, "BP128: stored count");
#endif
    size_t cap; __CPROVER_assume(cap <= BP_N);
#if BP_KIND == 0
    size_t d = varintBP128Decode32(buf, out, cap);
#elif BP_KIND == 1
    size_t d = varintBP128DeltaDecode32(buf, out, cap);
#elif BP_KIND == 2
    size_t d = varintBP128Decode64(buf, out, cap);
#else
    size_t d = varintBP128DeltaDecode64(buf, out, cap);
#endif
    __CPROVER_assert(d <= cap && out[BP_N] == (bp_t)0x5a5a5a5a5a5a5a5aULL, "BP128: decoder writes at most maxCount elements");
    __CPROVER_assert(cap < count || (d == count && out[k] == v[k]), "BP128: round trip with the original element count");
    __CPROVER_assert(k >= d || out[k] == v[k], "BP128: a smaller capacity yields a correct prefix");
    CANARY();
}
#endif
