/* Group codec: /repo/src/varintGroup.c.  The API admits at most 64 fields, so every loop is bounded
 * by GROUP_N+1 unwindings with unwinding assertions; GROUP_N == 64 is the whole API (complete),
 * smaller GROUP_N are bounded stand-ins (the precondition fieldCount <= GROUP_N is stated). */
#include "cmacros.h"
#include "spec_scalar.h"
#include "varint.h"
#include "varintExternal.h"
#include "varintGroup.h"
#ifndef GROUP_N
#define GROUP_N 4
#endif

/* spec from the header comments: count byte, 2-bit width codes (LSB-first in each bitmap byte),
 * then each value little-endian in 1/2/4/8 bytes (smallest of those that holds it) */
static inline unsigned spec_group_width(uint64_t v) { return v <= 0xff ? 1 : v <= 0xffff ? 2 : v <= 0xffffffffULL ? 4 : 8; }
static inline unsigned spec_group_code(unsigned w) { return w == 1 ? 0 : w == 2 ? 1 : w == 4 ? 2 : 3; }
static inline size_t spec_group_bitmap(unsigned n) { return (2 * n + 7) / 8; }

#include "varintExternal.c"
#include "varintGroup.c"

#ifndef VERIF_NATIVE
/* relational wrapper under contract: size -> exact-size destination -> encode -> self-measured size ->
 * decode into exactly maxFields slots -> random access.  g_k is the arbitrary field. */
#define GROUP_MAXB (1 + (2 * GROUP_N + 7) / 8 + 8 * GROUP_N)
bool w_groupAll(const uint64_t *values, uint8_t fieldCount, size_t maxFields, uint8_t g_k, unsigned g_b, unsigned g_o)
{
    bool ok = true;
    /* C03: the size predictor is exact; the destination has exactly that many bytes */
    size_t size = varintGroupSize(values, fieldCount);
    size_t want = 1 + spec_group_bitmap(fieldCount);
    for (unsigned i = 0; i < GROUP_N; i++) { if (i < fieldCount) want += spec_group_width(values[i]); }
    ok = ok && size == want;
    /* fixed-size destination (a symbolic-size object under memset exhausts CBMC): bytes at and beyond
     * the advertised size must keep their prior (arbitrary) contents */
    struct { uint8_t b[GROUP_MAXB]; } dst_, before_;   /* uninitialised = arbitrary contents */
    before_ = dst_;
    uint8_t *dst = dst_.b; const uint8_t *before = before_.b;
    size_t wrote = varintGroupEncode(dst, values, fieldCount);
    ok = ok && wrote == size && (g_b < size || dst[g_b] == before[g_b]);
    /* C04-style layout of the arbitrary field: its width code in the bitmap and its bytes */
    size_t off = 1 + spec_group_bitmap(fieldCount);
    for (unsigned i = 0; i < GROUP_N; i++) { if (i < g_k) off += spec_group_width(values[i]); }
    unsigned wk = spec_group_width(values[g_k]);
    ok = ok && dst[0] == fieldCount && ((dst[1 + (2 * g_k) / 8] >> ((2 * g_k) % 8)) & 3) == spec_group_code(wk);
    for (unsigned b = 0; b < 8; b++) { if (b < wk) ok = ok && dst[off + b] == spec_ext_byte(values[g_k], b); }
    /* C16: self-measured size, field count, field width */
    ok = ok && varintGroupGetSize(dst) == wrote && varintGroupGetFieldCount(dst) == fieldCount &&
         varintGroupGetFieldWidth(dst, g_k) == wk;
    /* C13 + C02: decoder with exactly maxFields output slots */
    struct { uint64_t v[GROUP_N + 2]; } out_, obefore_;
    obefore_ = out_;
    uint64_t *out = out_.v; const uint64_t *obefore = obefore_.v;
    uint8_t fc = 0xAA;
    size_t rd = varintGroupDecode(dst, out, &fc, maxFields);
    ok = ok && (g_o < maxFields || out[g_o] == obefore[g_o]);      /* nothing beyond the capacity is written */
    if (fieldCount > maxFields) {
        ok = ok && rd == 0;
    } else {
        ok = ok && rd == wrote && out[g_k] == values[g_k] && fc == fieldCount;
    }
    /* random access returns what the full decoder returns, and the offset just past the field */
    uint64_t one = ~values[g_k];
    size_t r1 = varintGroupGetField(dst, g_k, &one);
    ok = ok && one == values[g_k] && r1 == off + wk;
    return ok;
}
/* pre/postcondition of the wrapper are stated in the harness (CBMC's contract instrumentation does not
 * accept a body that allocates and loops; the obligations generated are the same) */
void H_groupAll(void) {
    uint8_t fc; size_t mf; uint8_t k; unsigned gb, go;
    __CPROVER_assume(fc >= 1 && fc <= GROUP_N && k < fc && mf <= GROUP_N + 1 && gb < GROUP_MAXB && go < GROUP_N + 2);
    uint64_t v[GROUP_N];
    __CPROVER_assert(w_groupAll(v, fc, mf, k, gb, go), "group: exact size, layout, self-measured size, capacity-respecting lossless decode, random access");
    CANARY();
}

/* rejected field counts: 0 and > 64 give 0 and write nothing */
bool w_groupReject(uint8_t fieldCount)
{
    uint64_t v[1] = {7};
    uint8_t d[1] = {0x5a};
    return varintGroupSize(v, fieldCount) == 0 && varintGroupEncode(d, v, fieldCount) == 0 && d[0] == 0x5a;
}
void H_groupReject(void) { uint8_t fc; __CPROVER_assume(fc == 0 || fc > 64); __CPROVER_assert(w_groupReject(fc), "group: rejected field counts give 0 and write nothing"); CANARY(); }
#endif
