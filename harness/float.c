/* Float codec: /repo/src/varintFloat.c.
 *   M1  Decompose/Compose over all 2^64 bit patterns: special classification, FULL mode bit-exact;
 *       lossy element path truncate -> (carry) -> expand within 2^-m of the mantissa, integer arithmetic;
 *       EncodeAuto's selection rule: published bound of the selected precision <= requested error
 *   M3  Encode -> Decode of ONE element through the real array functions, each precision x mode: bit-exact (FULL, specials),
 *       relative error (lossy), size within varintFloatMaxEncodedSize (C07, C03) */
#include "cmacros.h"
#include "varint.h"
#include "varintFloat.h"
#include <math.h>
#ifndef FL_PREC
#define FL_PREC 0
#endif
#ifndef FL_MODE
#define FL_MODE 0
#endif
typedef union { double d; uint64_t u; } fl_bits;
#ifndef VERIF_NATIVE
/* libm's ldexp has no body in CBMC; the library only calls ldexp(1.0, -bits): trusted stub for exactly those arguments */
double ldexp(double x, int e) {
    __CPROVER_assert(x == 1.0 && (e == -52 || e == -23 || e == -10 || e == -4), "ldexp stub: only 2^-(mantissa bits)");
    return e == -52 ? 0x1p-52 : e == -23 ? 0x1p-23 : e == -10 ? 0x1p-10 : 0x1p-4;
}
#endif

#include "varintTagged.c"
#include "varintExternal.c"
#include "varintFloat.c"

#ifndef VERIF_NATIVE
/* ---- M1: decomposition, FULL-precision element path ---- */
bool w_floatFull(uint64_t pattern)
    __CPROVER_requires(1) __CPROVER_assigns() __CPROVER_ensures(RET == true)
{
    fl_bits in, out; in.u = pattern;
    uint64_t sign, mant; int16_t e;
    bool normal = varintFloatDecompose(in.d, &sign, &e, &mant);
    uint64_t ef = (pattern >> 52) & 0x7ff;
    bool ok = normal == (ef != 0 && ef != 0x7ff) && sign == pattern >> 63;    /* specials: NaN, infinities, zeros, subnormals */
    if (normal) {
        /* what the FULL path stores is the 52-bit field; the decoder restores the implicit one and composes */
        uint64_t stored = mant & 0xFFFFFFFFFFFFFULL;
        out.d = varintFloatCompose(sign, e, stored | (1ULL << 52));
        ok = ok && out.u == pattern && (mant >> 52) == 1 && e >= -1022 && e <= 1023;
    }
    return ok;
}
void H_floatFull(void) { uint64_t p; w_floatFull(p); CANARY(); }

/* ---- M1: lossy element path, the arithmetic the encoder and decoder apply to a normal value's mantissa ---- */
bool w_floatLossy(uint64_t M, unsigned sel)
    __CPROVER_requires((M >> 52) == 1 && sel >= 1 && sel <= 3) __CPROVER_assigns() __CPROVER_ensures(RET == true)
{
    uint8_t m = varintFloatPrecisionMantissaBits((varintFloatPrecision)sel);
    bool ok = m == (sel == 1 ? 23 : sel == 2 ? 10 : 4);
    uint64_t t = truncateMantissa(M, 53, m);
    int de = 0;
    if (t >> m) { t >>= 1; de = 1; }                     /* the encoder's carry step (mirrors varintFloatEncode) */
    ok = ok && (t >> m) == 0 && (t >> (m - 1)) == 1;     /* fits the field, leading one kept */
    uint64_t back = expandMantissa(t, m, 53);
    /* |back * 2^de - M| <= M * 2^-m, in integers: compare in units of 2^-m of M */
    __uint128_t rebuilt = (__uint128_t)back << de, orig = M;
    __uint128_t diff = rebuilt > orig ? rebuilt - orig : orig - rebuilt;
    return ok && (diff << m) <= orig;
}
void H_floatLossy(void) { uint64_t M; unsigned s; w_floatLossy(M, s); CANARY(); }

/* ---- M1: automatic selection rule ---- */
bool w_floatAutoRule(double req)
    __CPROVER_requires(req > 0.0 && req < 1.0) __CPROVER_assigns() __CPROVER_ensures(RET == true)
{
    double v[1] = {0.0}; uint8_t out[64]; varintFloatPrecision sel;
    varintFloatEncodeAuto(out, v, 1, req, VARINT_FLOAT_MODE_INDEPENDENT, &sel);
    double bound = sel == VARINT_FLOAT_PRECISION_FULL ? 0x1p-52 : sel == VARINT_FLOAT_PRECISION_HIGH ? 0x1p-23 : sel == VARINT_FLOAT_PRECISION_MEDIUM ? 0x1p-10 : 0x1p-4;
    return sel <= 3 && (bound <= req || sel == VARINT_FLOAT_PRECISION_FULL);
}
void H_floatAutoRule(void) { double r; w_floatAutoRule(r); CANARY(); }

/* ---- M3: one element through the real array functions ---- */
void H_floatOne(void) {
    fl_bits in, out; uint64_t pattern; in.u = pattern;
    double v[1]; v[0] = in.d; double o[1];
    uint8_t buf[64]; size_t g; __CPROVER_assume(g < sizeof(buf)); uint8_t before_g = buf[g];
    size_t maxb = varintFloatMaxEncodedSize(1, (varintFloatPrecision)FL_PREC);
    size_t n = varintFloatEncode(buf, v, 1, (varintFloatPrecision)FL_PREC, (varintFloatEncodingMode)FL_MODE);
    __CPROVER_assert(n >= 4 && n <= maxb && (g < maxb || buf[g] == before_g), "float: encoder stays within varintFloatMaxEncodedSize");
    size_t d = varintFloatDecode(buf, 1, o);
    out.d = o[0];
    uint64_t ef = (pattern >> 52) & 0x7ff;
    __CPROVER_assert(d == n, "float: decoder consumes what the encoder wrote");
    if (ef == 0 || ef == 0x7ff || FL_PREC == 0) {
        __CPROVER_assert(out.u == pattern, "float: specials and FULL precision are reproduced bit for bit");
    } else {
        /* lossy: same sign; |out - in| <= |in| * 2^-m, or +-infinity when rounding leaves the finite range */
        unsigned m = FL_PREC == 1 ? 23 : FL_PREC == 2 ? 10 : 4;
        uint64_t eo = (out.u >> 52) & 0x7ff;
        __CPROVER_assert((out.u >> 63) == (pattern >> 63), "float lossy: sign preserved");
        if (eo == 0x7ff) __CPROVER_assert((out.u & 0xFFFFFFFFFFFFFULL) == 0 && ef == 0x7fe, "float lossy: only the top binade may round to infinity");
        else {
            uint64_t Mi = (pattern & 0xFFFFFFFFFFFFFULL) | (1ULL << 52), Mo = (out.u & 0xFFFFFFFFFFFFFULL) | (1ULL << 52);
            __CPROVER_assert(eo == ef || eo == ef + 1, "float lossy: exponent kept or bumped by the rounding carry");
            __uint128_t a = (__uint128_t)Mo << (eo - ef), b = Mi;
            __uint128_t diff = a > b ? a - b : b - a;
            __CPROVER_assert((diff << m) <= b, "float lossy: relative error within 2^-(mantissa bits)");
        }
    }
    CANARY();
}
#endif
