/* Delta codec: /repo/src/varintDelta.c + the zig-zag helpers of varintDelta.h.
 *   M1  zig-zag map against its definition and as a bijection; varintDeltaPut / varintDeltaGet byte-exact, inverse
 *   M2  varintDeltaEncode / varintDeltaEncodeUnsigned never exceed varintDeltaMaxEncodedSize(count), any count (C03)
 *   M3  Encode -> Decode round trip for DELTA_N elements (C02), bounded */
#include "callee_scalar.h"
#include "varintExternal.h"
#include "varintDelta.h"
#ifndef DELTA_MAXCOUNT
#define DELTA_MAXCOUNT (1ULL << 32)
#endif
#ifndef DELTA_N
#define DELTA_N 3
#endif
#define M_EXT_LEN(v) ((v) <= 0xffULL ? 1u : (v) <= 0xffffULL ? 2u : (v) <= 0xffffffULL ? 3u : (v) <= 0xffffffffULL ? 4u \
                    : (v) <= 0xffffffffffULL ? 5u : (v) <= 0xffffffffffffULL ? 6u : (v) <= 0xffffffffffffffULL ? 7u : 8u)
/* zig-zag as an expression (assigns targets may not call functions) */
#define M_ZZ(d) ((((uint64_t)(d)) << 1) ^ (0ULL - (((uint64_t)(d)) >> 63)))   /* ternary-free: usable in assigns conditions */

#ifndef VERIF_NATIVE
/* element writer: [width byte][little-endian zig-zag in width bytes], exact frame */
/* two frames: the exact one (conditional target per length, destination of exactly that many bytes) is what the M1 job
 * delta/Put enforces; callers with loop contracts use the coarse one (nine writable bytes, which is what a
 * varintDeltaMaxEncodedSize buffer always offers at the write position), enforced by delta/PutCoarse */
#ifdef DELTA_PUT_COARSE
#define DELTA_PUT_FRAME __CPROVER_requires(__CPROVER_w_ok(p, 9)) __CPROVER_assigns(__CPROVER_object_upto(p, 9))
#else
#define DZ_ M_ZZ(delta)
#define DELTA_PUT_FRAME __CPROVER_requires(__CPROVER_w_ok(p, 1 + M_EXT_LEN(M_ZZ(delta))))                    \
    __CPROVER_assigns(DZ_ <= 0xffULL : __CPROVER_object_upto(p, 2);                                         \
                      DZ_ > 0xffULL && DZ_ <= 0xffffULL : __CPROVER_object_upto(p, 3);                      \
                      DZ_ > 0xffffULL && DZ_ <= 0xffffffULL : __CPROVER_object_upto(p, 4);                  \
                      DZ_ > 0xffffffULL && DZ_ <= 0xffffffffULL : __CPROVER_object_upto(p, 5);              \
                      DZ_ > 0xffffffffULL && DZ_ <= 0xffffffffffULL : __CPROVER_object_upto(p, 6);          \
                      DZ_ > 0xffffffffffULL && DZ_ <= 0xffffffffffffULL : __CPROVER_object_upto(p, 7);      \
                      DZ_ > 0xffffffffffffULL && DZ_ <= 0xffffffffffffffULL : __CPROVER_object_upto(p, 8);  \
                      DZ_ > 0xffffffffffffffULL : __CPROVER_object_upto(p, 9))
#endif
varintWidth varintDeltaPut(uint8_t *p, const int64_t delta)
    DELTA_PUT_FRAME
    __CPROVER_ensures(RET == 1 + spec_ext_len(spec_zigzag(delta)) && RET >= 2 && RET <= 9)
    __CPROVER_ensures(p[0] == spec_ext_len(spec_zigzag(delta)))
    __CPROVER_ensures(p[1] == spec_ext_byte(spec_zigzag(delta), 0))
    __CPROVER_ensures(RET < 3 || p[2] == spec_ext_byte(spec_zigzag(delta), 1))
    __CPROVER_ensures(RET < 4 || p[3] == spec_ext_byte(spec_zigzag(delta), 2))
    __CPROVER_ensures(RET < 5 || p[4] == spec_ext_byte(spec_zigzag(delta), 3))
    __CPROVER_ensures(RET < 6 || p[5] == spec_ext_byte(spec_zigzag(delta), 4))
    __CPROVER_ensures(RET < 7 || p[6] == spec_ext_byte(spec_zigzag(delta), 5))
    __CPROVER_ensures(RET < 8 || p[7] == spec_ext_byte(spec_zigzag(delta), 6))
    __CPROVER_ensures(RET < 9 || p[8] == spec_ext_byte(spec_zigzag(delta), 7));

/* element reader on a well-formed element (width byte 1..8, that many bytes readable) */
varintWidth varintDeltaGet(const uint8_t *p, int64_t *pDelta)
    __CPROVER_requires(__CPROVER_r_ok(p, 1) && p[0] >= 1 && p[0] <= 8 && __CPROVER_r_ok(p, 1 + (size_t)p[0]))
    __CPROVER_requires(__CPROVER_w_ok(pDelta, sizeof(int64_t)))
    __CPROVER_assigns(*pDelta)
    __CPROVER_ensures(RET == 1 + p[0] && *pDelta == spec_unzigzag(SPEC_LE_AT(p + 1, p[0])));

/* sizes (C03): exactly the advertised number of bytes is available */
#define DELTA_ENCODER_CONTRACT(fn, T)                                                                    \
    size_t fn(uint8_t *output, const T *values, size_t count)                                            \
        __CPROVER_requires(count >= 1 && count <= DELTA_MAXCOUNT)                                        \
        __CPROVER_requires(FRESH(values, count * sizeof(T)))                                             \
        __CPROVER_requires(FRESH(output, 1 + 8 + (count - 1) * 9)) /* == varintDeltaMaxEncodedSize(count) */ \
        __CPROVER_assigns(__CPROVER_object_whole(output))                                                \
        __CPROVER_ensures(RET <= 9 * count && RET >= 2 * count);
DELTA_ENCODER_CONTRACT(varintDeltaEncode, int64_t)
DELTA_ENCODER_CONTRACT(varintDeltaEncodeUnsigned, uint64_t)
#endif

#include "varintExternal.c"
#include "varintDelta.c"

#ifndef VERIF_NATIVE
/* ---- M1: zig-zag ---- */
bool w_deltaZigZag(int64_t n, uint64_t u)
    __CPROVER_requires(1) __CPROVER_assigns() __CPROVER_ensures(RET == true)
{
    return varintDeltaZigZag(n) == spec_zigzag(n) &&                 /* C04: the mathematical map 0,-1,1,-2,... -> 0,1,2,3,... */
           varintDeltaZigZagDecode(varintDeltaZigZag(n)) == n &&     /* C02: inverse one way ... */
           varintDeltaZigZag(varintDeltaZigZagDecode(u)) == u &&     /* ... and the other: a bijection */
           varintDeltaZigZagDecode(u) == spec_unzigzag(u);
}
void H_deltaZigZag(void) { int64_t n; uint64_t u; w_deltaZigZag(n, u); CANARY(); }

/* ---- M1: element put/get ---- */
void H_deltaPut(void) { int64_t d; uint8_t *p = malloc(1 + M_EXT_LEN(M_ZZ(d))); __CPROVER_assume(p != NULL); varintDeltaPut(p, d); CANARY(); }
void H_deltaPutCoarse(void) { int64_t d; uint8_t *p = malloc(9); __CPROVER_assume(p != NULL); varintDeltaPut(p, d); CANARY(); }
void H_deltaGet(void) {
    unsigned w; __CPROVER_assume(w >= 1 && w <= 8);
    uint8_t *p = malloc(1 + w); __CPROVER_assume(p != NULL); __CPROVER_assume(p[0] == w);
    int64_t d; varintDeltaGet(p, &d); CANARY();
}
bool w_deltaElemRoundTrip(int64_t d)
    __CPROVER_requires(1) __CPROVER_assigns() __CPROVER_ensures(RET == true)
{
    uint8_t b[10]; b[9] = 0x5a;   /* guard byte just past the longest element */
    varintWidth n = varintDeltaPut(b, d);
    int64_t back = ~d;
    varintWidth m = varintDeltaGet(b, &back);
    return n == m && back == d && n >= 2 && n <= 9 && b[9] == 0x5a;
}
void H_deltaElemRoundTrip(void) { int64_t d; w_deltaElemRoundTrip(d); CANARY(); }

/* ---- M1: the advertised bound is the formula the encoder jobs allocate by ---- */
size_t w_deltaMaxEncodedSize(size_t count)
    __CPROVER_requires(count <= DELTA_MAXCOUNT) __CPROVER_assigns()
    __CPROVER_ensures(RET == (count == 0 ? 0 : 1 + 8 + (count - 1) * 9))
{ return varintDeltaMaxEncodedSize(count); }
void H_deltaMaxEncodedSize(void) { size_t c; w_deltaMaxEncodedSize(c); CANARY(); }

/* ---- M2: sizes ---- */
void H_deltaEncode(void) { uint8_t *o; int64_t *v; size_t c; varintDeltaEncode(o, v, c); CANARY(); }
void H_deltaEncodeUnsigned(void) { uint8_t *o; uint64_t *v; size_t c; varintDeltaEncodeUnsigned(o, v, c); CANARY(); }
void H_deltaEmpty(void) {
    uint8_t o[1] = {0x5a}; int64_t v[1]; uint64_t u[1];
    __CPROVER_assert(varintDeltaMaxEncodedSize(0) == 0 && varintDeltaEncode(o, v, 0) == 0 && varintDeltaEncodeUnsigned(o, u, 0) == 0 &&
                     varintDeltaDecode(o, 0, v) == 0 && varintDeltaDecodeUnsigned(o, 0, u) == 0 && o[0] == 0x5a,
                     "delta: empty arrays take no bytes and touch nothing");
    CANARY();
}

/* ---- M3: bounded array round trip (all values; signed form under the property's precondition that the
 * successive differences are representable) ---- */
void H_deltaRoundTripSigned(void) {
    size_t count; __CPROVER_assume(count >= 1 && count <= DELTA_N);
    int64_t v[DELTA_N], out[DELTA_N]; size_t k; __CPROVER_assume(k < count);
    for (unsigned i = 1; i < DELTA_N; i++) {
        if (i < count) { __int128 d = (__int128)v[i] - (__int128)v[i - 1]; __CPROVER_assume(d >= INT64_MIN && d <= INT64_MAX); }
    }
    uint8_t buf[9 * DELTA_N + 1]; buf[9 * DELTA_N] = 0x5a;
    size_t n = varintDeltaEncode(buf, v, count);
    __CPROVER_assert(n <= varintDeltaMaxEncodedSize(count) && buf[9 * DELTA_N] == 0x5a, "delta signed: size within varintDeltaMaxEncodedSize");
    size_t m = varintDeltaDecode(buf, count, out);
    __CPROVER_assert(m == n, "delta signed: decoder consumes exactly the bytes the encoder wrote");
    __CPROVER_assert(out[k] == v[k], "delta signed: round trip");
    CANARY();
}
void H_deltaRoundTripUnsigned(void) {
    size_t count; __CPROVER_assume(count >= 1 && count <= DELTA_N);
    uint64_t v[DELTA_N], out[DELTA_N]; size_t k; __CPROVER_assume(k < count);
    uint8_t buf[9 * DELTA_N + 1]; buf[9 * DELTA_N] = 0x5a;
    size_t n = varintDeltaEncodeUnsigned(buf, v, count);
    __CPROVER_assert(n <= varintDeltaMaxEncodedSize(count) && buf[9 * DELTA_N] == 0x5a, "delta unsigned: size within varintDeltaMaxEncodedSize");
    size_t m = varintDeltaDecodeUnsigned(buf, count, out);
    __CPROVER_assert(m == n, "delta unsigned: decoder consumes exactly the bytes the encoder wrote");
    __CPROVER_assert(out[k] == v[k], "delta unsigned: round trip");
    CANARY();
}
#endif
