/* C11: /repo/src/varintBitstream.h, instantiated per word type through its own
 * VBITS / VBITSVAL knobs (-DVB_T=<type> on the command line; default uint64_t) */
#include "cmacros.h"
#ifndef VB_T
#define VB_T uint64_t
#endif
#define VBITS VB_T
#define VBITSVAL VB_T
#define W ((size_t)(sizeof(VB_T) * 8))
#ifndef MAXOFF
#define MAXOFF (((size_t)1) << 24)
#endif

/* ghosts */
size_t g_bit;   /* an arbitrary stream bit position */
size_t g_j;     /* an arbitrary bit of the value, 0 = most significant of the bitsPerValue-wide field */

/* the stream is MSB-first: stream position p lives in word p/W at bit W-1-p%W */
#define BS_BIT(words, p) ((((words)[(p) / W]) >> (W - 1 - (p) % W)) & 1)
#define VAL_BIT(val, bits, j) ((((VB_T)(val)) >> ((bits)-1 - (j))) & 1)
#define FITS(val, bits) ((bits) >= W || ((VB_T)(val) >> (bits)) == 0)
#define LASTW(off, bits) (((off) + (bits)-1) / W)

#ifndef VERIF_NATIVE
/* A: offset inside the first word, object = exactly the overlapped words (any other access is a pointer violation) */
/* B: large symbolic offset, object ends with the last overlapped word, frame = the two overlapped words */
static void varintBitstreamSet(VB_T *const dst, const size_t startBitOffset, const size_t bitsPerValue, const VB_T val)
    __CPROVER_requires(bitsPerValue >= 1 && bitsPerValue <= W && startBitOffset < MAXOFF && FITS(val, bitsPerValue))
    __CPROVER_requires(FRESH(dst, (LASTW(startBitOffset, bitsPerValue) + 1) * sizeof(VB_T)))
    __CPROVER_requires(g_bit < (LASTW(startBitOffset, bitsPerValue) + 1) * W && g_j < bitsPerValue)
    __CPROVER_assigns(dst[startBitOffset / W], dst[LASTW(startBitOffset, bitsPerValue)])
    /* the written range holds the value, MSB first */
    __CPROVER_ensures(BS_BIT(dst, startBitOffset + g_j) == VAL_BIT(val, bitsPerValue, g_j))
    /* every other bit of the stream keeps its value */
    __CPROVER_ensures((g_bit >= startBitOffset && g_bit < startBitOffset + bitsPerValue) ||
                      BS_BIT(dst, g_bit) == ((__CPROVER_old(dst[g_bit / W]) >> (W - 1 - g_bit % W)) & 1));

static VB_T varintBitstreamGet(const VB_T *const src, const size_t startBitOffset, const size_t bitsPerValue)
    __CPROVER_requires(bitsPerValue >= 1 && bitsPerValue <= W && startBitOffset < MAXOFF)
    __CPROVER_requires(FRESH(src, (LASTW(startBitOffset, bitsPerValue) + 1) * sizeof(VB_T)))
    __CPROVER_requires(g_j < bitsPerValue)
    __CPROVER_assigns()
    __CPROVER_ensures(FITS(RET, bitsPerValue))
    __CPROVER_ensures(VAL_BIT(RET, bitsPerValue, g_j) == BS_BIT(src, startBitOffset + g_j));
#endif

#include "varintBitstream.h"

/* Set then Get at the same offset/width returns the value; guard words on both sides untouched */
#ifndef VERIF_NATIVE
bool w_bsRoundTrip(size_t off, size_t bits, VB_T val, VB_T w0, VB_T w1, VB_T w2, VB_T w3)
    __CPROVER_requires(bits >= 1 && bits <= W && off < W && FITS(val, bits))
    __CPROVER_assigns() __CPROVER_ensures(RET == true)
#else
bool w_bsRoundTrip(size_t off, size_t bits, VB_T val, VB_T w0, VB_T w1, VB_T w2, VB_T w3)
#endif
{
    VB_T buf[4] = {w0, w1, w2, w3};
    varintBitstreamSet(buf + 1, off, bits, val);
    VB_T got = varintBitstreamGet(buf + 1, off, bits);
    bool one = (off + bits <= W);
    return got == val && buf[0] == w0 && buf[3] == w3 && (!one || buf[2] == w2);
}

/* signed helpers: sign-magnitude in `bits` bits */
#ifndef VERIF_NATIVE
bool w_bsSigned(int64_t x, unsigned bits)
    __CPROVER_requires(bits >= 1 && bits <= 64)
    __CPROVER_requires(bits == 64 ? x > INT64_MIN : (x > -((int64_t)1 << (bits - 1)) && x < ((int64_t)1 << (bits - 1))))
    __CPROVER_assigns() __CPROVER_ensures(RET == true)
#else
bool w_bsSigned(int64_t x, unsigned bits)
#endif
{
    int64_t v = x;
    if (v < 0) { _varintBitstreamPrepareSigned(v, bits); }
    bool fits = bits == 64 || (((uint64_t)v) >> bits) == 0;
    int64_t r = v;
    _varintBitstreamRestoreSigned(r, bits);
    return fits && r == x;
}

#ifndef VERIF_NATIVE
#define SETG() size_t gb_, gj_; g_bit = gb_; g_j = gj_
void H_bsSet(void) { SETG(); VB_T *dst; size_t off, bits; VB_T val; varintBitstreamSet(dst, off, bits, val); CANARY(); }
void H_bsGet(void) { SETG(); VB_T *src; size_t off, bits; varintBitstreamGet(src, off, bits); CANARY(); }
void H_bsRoundTrip(void) { size_t off, bits; VB_T val, w0, w1, w2, w3; w_bsRoundTrip(off, bits, val, w0, w1, w2, w3); CANARY(); }
void H_bsSigned(void) { int64_t x; unsigned bits; w_bsSigned(x, bits); CANARY(); }
#else
#define DEF0(n) 0
#ifndef IN_off
#define IN_off 0
#endif
#ifndef IN_bits
#define IN_bits 1
#endif
#ifndef IN_val
#define IN_val 0
#endif
#ifndef IN_w0
#define IN_w0 0
#endif
#ifndef IN_w1
#define IN_w1 0
#endif
#ifndef IN_w2
#define IN_w2 0
#endif
#ifndef IN_w3
#define IN_w3 0
#endif
#ifndef IN_g_bit
#define IN_g_bit 0
#endif
#ifndef IN_g_j
#define IN_g_j 0
#endif
/* the trace does not carry the prior contents of the dynamic object: try all-zero, all-one and two patterns */
static const uint64_t rp_pat[4] = {0, ~0ULL, 0xAAAAAAAAAAAAAAAAULL, 0x0123456789ABCDEFULL};
void H_bsSet(void) {
    size_t off = IN_off, bits = IN_bits; VB_T val = (VB_T)IN_val;
    if (!(bits >= 1 && bits <= W && off < MAXOFF && FITS(val, bits))) { printf("REPLAY: input outside the precondition\n"); return; }
    size_t nw = LASTW(off, bits) + 1;
    if (nw > (1u << 22)) { printf("REPLAY: offset too large for a native buffer\n"); return; }
    for (int p = 0; p < 4; p++) {
        VB_T *dst = rp_fresh(nw * sizeof(VB_T)), *old = rp_fresh(nw * sizeof(VB_T));
        for (size_t i = 0; i < nw; i++) old[i] = dst[i] = (VB_T)rp_pat[p];
        varintBitstreamSet(dst, off, bits, val);
        for (size_t j = 0; j < bits; j++) RP_CHECK(BS_BIT(dst, off + j) == VAL_BIT(val, bits, j));
        for (size_t b = (nw > 3 ? (nw - 3) * W : 0); b < nw * W; b++)
            if (!(b >= off && b < off + bits)) RP_CHECK(BS_BIT(dst, b) == BS_BIT(old, b));
        free(dst); free(old);
    }
}
void H_bsGet(void) {
    size_t off = IN_off, bits = IN_bits;
    if (!(bits >= 1 && bits <= W && off < MAXOFF)) { printf("REPLAY: input outside the precondition\n"); return; }
    size_t nw = LASTW(off, bits) + 1;
    if (nw > (1u << 22)) { printf("REPLAY: offset too large for a native buffer\n"); return; }
    for (int p = 0; p < 4; p++) {
        VB_T *src = rp_fresh(nw * sizeof(VB_T));
        for (size_t i = 0; i < nw; i++) src[i] = (VB_T)(rp_pat[p] * (i + 1));
        VB_T r = varintBitstreamGet(src, off, bits);
        RP_CHECK(FITS(r, bits));
        for (size_t j = 0; j < bits; j++) RP_CHECK(VAL_BIT(r, bits, j) == BS_BIT(src, off + j));
        free(src);
    }
}
void H_bsRoundTrip(void) {
    size_t off = IN_off, bits = IN_bits; VB_T val = (VB_T)IN_val;
    if (!(bits >= 1 && bits <= W && off < W && FITS(val, bits))) { printf("REPLAY: input outside the precondition\n"); return; }
    RP_CHECK(w_bsRoundTrip(off, bits, val, (VB_T)IN_w0, (VB_T)IN_w1, (VB_T)IN_w2, (VB_T)IN_w3) == true);
}
void H_bsSigned(void) {
    int64_t x = (int64_t)IN_x; unsigned bits = (unsigned)IN_bits;
    RP_CHECK(w_bsSigned(x, bits) == true);
}
#endif
RP_MAIN()
