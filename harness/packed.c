/* C09: /repo/src/varintPacked.h instantiated the way the library is meant to be
 * used (only PACK_STORAGE_* knobs are defined here, from the command line):
 *   -DPK_BITS=<1..32> -DPK_SLOT=<uintN_t> [-DPK_COMPACT] [-DPK_PROMO=<type>] [-DPK_VALT=<type>] [-DPK_MAXEL=<n>] */
#include "cmacros.h"

#define PACK_STORAGE_BITS PK_BITS
#define PACK_STORAGE_SLOT_STORAGE_TYPE PK_SLOT
#ifdef PK_COMPACT
#define PACK_STORAGE_COMPACT
#endif
#ifdef PK_PROMO
#define PACK_STORAGE_MICRO_PROMOTION_TYPE PK_PROMO
#endif
#ifdef PK_VALT
#define PACK_STORAGE_VALUE_TYPE PK_VALT
#endif
#ifdef PK_MAXEL
#define PACK_MAX_ELEMENTS PK_MAXEL
#endif

/* names and types exactly as the header derives them */
#define PK_CAT_(a, b) a##b
#define PK_CAT(a, b) PK_CAT_(a, b)
#ifdef PK_COMPACT
#define PK_FN(op) PK_CAT(PK_CAT(varintPackedCompact, PK_BITS), op)
#else
#define PK_FN(op) PK_CAT(PK_CAT(varintPacked, PK_BITS), op)
#endif
#ifdef PK_VALT
typedef PK_VALT pk_val;
#elif PK_BITS <= 8
typedef uint8_t pk_val;
#elif PK_BITS <= 16
typedef uint16_t pk_val;
#else
typedef uint32_t pk_val;
#endif
#ifdef PK_MAXEL
#if PK_MAXEL <= 255
typedef uint8_t pk_len;
#elif PK_MAXEL <= 65535
typedef uint16_t pk_len;
#else
typedef uint32_t pk_len;
#endif
#else
typedef uint32_t pk_len;
#endif
typedef PK_SLOT pk_slot;

#define B ((uint64_t)PK_BITS)
#define S ((uint64_t)(sizeof(pk_slot) * 8))
#define MASK ((uint64_t)((1ULL << PK_BITS) - 1))
#ifndef PK_MAXLEN
#define PK_MAXLEN (1u << 20)
#endif
/* slots needed for n elements */
#define NSLOTS(n) ((((uint64_t)(n)) * B + S - 1) / S)
/* the packed array is an LSB-first bit stream over the slots */
#define PK_BIT(d, p) (((uint64_t)((const pk_slot *)(d))[(p) / S] >> ((p) % S)) & 1)
#define FIRST(i) ((((uint64_t)(i)) * B) / S)
#define LAST(i) ((((uint64_t)(i)) * B + B - 1) / S)

/* ghosts */
uint64_t g_bit; /* arbitrary storage bit (inside the array or in its padding) */
uint64_t g_t;   /* arbitrary bit of the addressed element */
uint64_t g_cur; /* value of the addressed element before SetIncr/SetHalf */
uint32_t g_len; /* number of elements the array holds */

/* element i as a number, from its definition (bit t of element i is stream bit i*B+t) */
static inline uint64_t spec_packed_elem(const pk_slot *d, uint64_t i) {
    uint64_t p = i * B, sb = p % S, a = p / S;
    uint64_t v = (uint64_t)d[a] >> sb;
    if (sb + B > S) v |= ((uint64_t)d[a + 1]) << (S - sb);
    return v & MASK;
}

#define REQ_ARRAY(p)                                                                   \
    __CPROVER_requires(g_len >= 1 && g_len <= PK_MAXLEN && offset < g_len)             \
    __CPROVER_requires(FRESH(p, NSLOTS(g_len) * sizeof(pk_slot)))                      \
    __CPROVER_requires(g_bit < NSLOTS(g_len) * S && g_t < B)
/* bits outside element `offset` keep their value (other elements and padding bits alike) */
#define ENS_ISOLATED(p)                                                                \
    __CPROVER_ensures((g_bit >= offset * B && g_bit < offset * B + B) ||               \
                      PK_BIT(p, g_bit) == ((((uint64_t)__CPROVER_old(((const pk_slot *)(p))[g_bit / S])) >> (g_bit % S)) & 1))
#define FRAME(p) __CPROVER_assigns(((pk_slot *)(p))[FIRST(offset)], ((pk_slot *)(p))[LAST(offset)])

#ifndef VERIF_NATIVE
void PK_FN(Set)(void *_dst, const pk_len offset, const pk_val val)
    REQ_ARRAY(_dst)
    __CPROVER_requires(((uint64_t)val & ~MASK) == 0)
    FRAME(_dst)
    __CPROVER_ensures(PK_BIT(_dst, offset * B + g_t) == (((uint64_t)val >> g_t) & 1))
    ENS_ISOLATED(_dst);

pk_val PK_FN(Get)(const void *src_, const pk_len offset)
    REQ_ARRAY(src_)
    __CPROVER_assigns()
    __CPROVER_ensures(((uint64_t)RET & ~MASK) == 0)
    __CPROVER_ensures((((uint64_t)RET >> g_t) & 1) == PK_BIT(src_, offset * B + g_t));

void PK_FN(SetIncr)(void *_dst, const pk_len offset, const int64_t incrBy)
    REQ_ARRAY(_dst)
    __CPROVER_requires(spec_packed_elem(_dst, offset) == g_cur)
    __CPROVER_requires(incrBy >= 0 && (uint64_t)incrBy <= MASK && g_cur + (uint64_t)incrBy <= MASK)
    FRAME(_dst)
    __CPROVER_ensures(spec_packed_elem(_dst, offset) == g_cur + (uint64_t)incrBy)
    ENS_ISOLATED(_dst);

void PK_FN(SetHalf)(void *_dst, const pk_len offset)
    REQ_ARRAY(_dst)
    __CPROVER_requires(spec_packed_elem(_dst, offset) == g_cur)
    FRAME(_dst)
    __CPROVER_ensures(spec_packed_elem(_dst, offset) == g_cur / 2)
    ENS_ISOLATED(_dst);
#endif

#include "varintPacked.h"

#ifndef VERIF_NATIVE
#define SETG() uint64_t gb_, gt_, gc_; uint32_t gl_; g_bit = gb_; g_t = gt_; g_cur = gc_; g_len = gl_
void H_pkSet(void) { SETG(); void *d; pk_len offset; pk_val val; PK_FN(Set)(d, offset, val); CANARY(); }
void H_pkGet(void) { SETG(); void *d; pk_len offset; PK_FN(Get)(d, offset); CANARY(); }
void H_pkSetIncr(void) { SETG(); void *d; pk_len offset; int64_t incrBy; PK_FN(SetIncr)(d, offset, incrBy); CANARY(); }
void H_pkSetHalf(void) { SETG(); void *d; pk_len offset; PK_FN(SetHalf)(d, offset); CANARY(); }

/* ---- bounded stand-in for the sorted-array operations: arrays of up to PK_SORTN elements,
 * compared with a reference sorted multiset kept in a plain C array ---- */
#ifndef PK_SORTN
#define PK_SORTN 5
#endif
static bool ref_sorted(const uint64_t *r, unsigned n) { for (unsigned i = 1; i < PK_SORTN + 1; i++) { if (i < n && r[i - 1] > r[i]) return false; } return true; }
void H_pkSorted(void) {
    unsigned n; __CPROVER_assume(n <= PK_SORTN);
    uint64_t ref[PK_SORTN + 1];
    pk_slot *arr = malloc(NSLOTS(PK_SORTN + 1) * sizeof(pk_slot));
    pk_slot pad; for (unsigned s = 0; s < NSLOTS(PK_SORTN + 1); s++) arr[s] = pad;
    for (unsigned i = 0; i < PK_SORTN + 1; i++) { uint64_t v; __CPROVER_assume(v <= MASK); ref[i] = v; if (i < n) PK_FN(Set)(arr, (pk_len)i, (pk_val)v); }
    __CPROVER_assume(ref_sorted(ref, n));
    pk_val probe; __CPROVER_assume((uint64_t)probe <= MASK);
    /* lower bound / member: first equal element or -1 */
    unsigned lb = 0; for (unsigned i = 0; i < PK_SORTN; i++) { if (i < n && ref[i] < probe) lb = i + 1; }
    __CPROVER_assert(PK_FN(BinarySearch)(arr, (pk_len)n, probe) == lb, "BinarySearch returns the lower bound");
    int64_t want = (lb < n && ref[lb] == probe) ? (int64_t)lb : -1;
    __CPROVER_assert(PK_FN(Member)(arr, (pk_len)n, probe) == want, "Member returns the first equal element or -1");
    unsigned op; 
    if (op == 0) { /* sorted insert */
        PK_FN(InsertSorted)(arr, (pk_len)n, probe);
        for (unsigned i = 0; i < PK_SORTN + 1; i++) { if (i < n + 1) {
            uint64_t e = i < lb ? ref[i] : i == lb ? probe : ref[i - 1];
            __CPROVER_assert(PK_FN(Get)(arr, (pk_len)i) == e, "InsertSorted keeps the array equal to the reference multiset"); } }
    } else if (op == 1) { /* positional insert */
        unsigned pos; __CPROVER_assume(pos <= n);
        PK_FN(Insert)(arr, (pk_len)n, (pk_len)pos, probe);
        for (unsigned i = 0; i < PK_SORTN + 1; i++) { if (i < n + 1) {
            uint64_t e = i < pos ? ref[i] : i == pos ? probe : ref[i - 1];
            __CPROVER_assert(PK_FN(Get)(arr, (pk_len)i) == e, "Insert shifts the tail up by one"); } }
    } else if (op == 2) { /* positional delete */
        unsigned pos; __CPROVER_assume(n >= 1 && pos < n);
        PK_FN(Delete)(arr, (pk_len)n, (pk_len)pos);
        for (unsigned i = 0; i < PK_SORTN; i++) { if (i + 1 < n) {
            uint64_t e = i < pos ? ref[i] : ref[i + 1];
            __CPROVER_assert(PK_FN(Get)(arr, (pk_len)i) == e, "Delete shifts the tail down by one"); } }
    } else { /* delete member */
        bool r = PK_FN(DeleteMember)(arr, (pk_len)n, probe);
        __CPROVER_assert(r == (want >= 0), "DeleteMember reports whether the member existed");
        for (unsigned i = 0; i < PK_SORTN; i++) { if (i + (want >= 0 ? 1 : 0) < n) {
            uint64_t e = (want < 0 || i < lb) ? ref[i] : ref[i + 1];
            __CPROVER_assert(PK_FN(Get)(arr, (pk_len)i) == e, "DeleteMember removes exactly the first equal element"); } }
    }
    CANARY();
}
#else
#ifndef IN_offset
#define IN_offset 0
#endif
#ifndef IN_val
#define IN_val 0
#endif
#ifndef IN_incrBy
#define IN_incrBy 0
#endif
#ifndef IN_g_len
#define IN_g_len 1
#endif
#ifndef IN_g_cur
#define IN_g_cur 0
#endif
static const uint64_t rp_pat[4] = {0, ~0ULL, 0xAAAAAAAAAAAAAAAAULL, 0x0123456789ABCDEFULL};
static void rp_set_elem(pk_slot *d, uint64_t i, uint64_t v) { for (uint64_t t = 0; t < B; t++) { uint64_t p = i * B + t; d[p / S] = (pk_slot)((d[p / S] & ~((pk_slot)1 << (p % S))) | ((pk_slot)((v >> t) & 1) << (p % S))); } }
#define RP_PK(hn, PRE, CALL, EXPECT)                                                              \
    void hn(void) {                                                                               \
        uint32_t len = (uint32_t)IN_g_len; pk_len offset = (pk_len)IN_offset; uint64_t cur = IN_g_cur; \
        pk_val val = (pk_val)IN_val; int64_t incrBy = (int64_t)IN_incrBy;                          \
        if (!(len >= 1 && len <= PK_MAXLEN && offset < len && (PRE))) { printf("REPLAY: input outside the precondition\n"); return; } \
        uint64_t ns = NSLOTS(len);                                                                \
        for (int p = 0; p < 4; p++) {                                                             \
            pk_slot *d = rp_fresh(ns * sizeof(pk_slot)), *old = rp_fresh(ns * sizeof(pk_slot));    \
            for (uint64_t i = 0; i < ns; i++) d[i] = (pk_slot)(rp_pat[p] * (i + 1));              \
            rp_set_elem(d, offset, cur & MASK);                                                   \
            memcpy(old, d, ns * sizeof(pk_slot));                                                 \
            CALL;                                                                                 \
            uint64_t lo = offset * B > 200 ? offset * B - 200 : 0, hi = offset * B + 200 < ns * S ? offset * B + 200 : ns * S; \
            for (uint64_t b = lo; b < hi; b++) if (!(b >= offset * B && b < offset * B + B)) RP_CHECK(PK_BIT(d, b) == PK_BIT(old, b)); \
            RP_CHECK(spec_packed_elem(d, offset) == (EXPECT));                                    \
            free(d); free(old);                                                                   \
        }                                                                                         \
    }
RP_PK(H_pkSet, (((uint64_t)val & ~MASK) == 0), PK_FN(Set)(d, offset, val), (uint64_t)val)
RP_PK(H_pkSetIncr, (incrBy >= 0 && (uint64_t)incrBy <= MASK && (cur & MASK) + (uint64_t)incrBy <= MASK), PK_FN(SetIncr)(d, offset, incrBy), (cur & MASK) + (uint64_t)incrBy)
RP_PK(H_pkSetHalf, 1, PK_FN(SetHalf)(d, offset), (cur & MASK) / 2)
void H_pkGet(void) {
    uint32_t len = (uint32_t)IN_g_len; pk_len offset = (pk_len)IN_offset;
    if (!(len >= 1 && len <= PK_MAXLEN && offset < len)) { printf("REPLAY: input outside the precondition\n"); return; }
    uint64_t ns = NSLOTS(len);
    for (int p = 0; p < 4; p++) {
        pk_slot *d = rp_fresh(ns * sizeof(pk_slot));
        for (uint64_t i = 0; i < ns; i++) d[i] = (pk_slot)(rp_pat[p] * (i + 1));
        RP_CHECK((uint64_t)PK_FN(Get)(d, offset) == spec_packed_elem(d, offset));
        free(d);
    }
}
void H_pkSorted(void) { printf("REPLAY: bounded job, see the verifier trace\n"); }
#endif
RP_MAIN()
