/* Dictionary codec: /repo/src/varintDict.c.
 *   M1  compareUint64 is a total order consistent with <; binarySearch on a sorted array (<= 17 iterations for the
 *       1M-entry maximum: width-bounded) ; index width from dictionary size
 *   M3  hostile input: both decoders on ARBITRARY bytes in an object of exactly bufferLen bytes (C14, C13), bufferLen <= DICT_HLEN
 *   M3  round trip through both decoders, exact size predictor, capacity (C02, C03, C13), DICT_N values
 *   the M3 jobs re-run with failing allocations and leak detection (C18)
 * qsort has no body in CBMC: the harness supplies a small exchange sort that calls the REAL comparator (trusted stub). */
#include "callee_scalar.h"
#include "varintTagged.h"
#include "varintExternal.h"
#include "varintDict.h"
#ifndef DICT_N
#define DICT_N 3
#endif
#ifndef DICT_HLEN
#define DICT_HLEN 8
#endif

#ifndef VERIF_NATIVE
/* trusted stub (listed in the evidence): sorts nmemb elements of `size` bytes ascending under compar */
void qsort(void *base, size_t nmemb, size_t size, int (*compar)(const void *, const void *)) {
    __CPROVER_assert(size == sizeof(uint64_t), "qsort stub: 8-byte elements only");
    uint64_t *a = (uint64_t *)base;
    for (size_t i = 0; i < nmemb; i++)
        for (size_t j = i + 1; j < nmemb; j++)
            if (compar(&a[j], &a[i]) < 0) { uint64_t t = a[i]; a[i] = a[j]; a[j] = t; }
}
#endif

#ifndef VERIF_NATIVE
/* C14 + C13, unbounded: arbitrary bytes in an object of exactly bufferLen bytes, output of exactly maxValues elements */
size_t varintDictDecodeInto(const uint8_t *buffer, size_t bufferLen, uint64_t *output, size_t maxValues)
    __CPROVER_requires(bufferLen >= 1 && bufferLen <= (1ULL << 32) && FRESH(buffer, bufferLen))
    __CPROVER_requires(maxValues <= (1ULL << 32) && FRESH(output, maxValues * sizeof(uint64_t)))
    __CPROVER_assigns(__CPROVER_object_upto(output, maxValues * sizeof(uint64_t)))
    __CPROVER_ensures(RET <= maxValues && RET <= bufferLen);
uint64_t *varintDictDecode(const uint8_t *buffer, size_t bufferLen, size_t *outCount)
    __CPROVER_requires(bufferLen >= 1 && bufferLen <= (1ULL << 32) && FRESH(buffer, bufferLen) && FRESH(outCount, sizeof(size_t)))
    __CPROVER_assigns(*outCount)
    /* no more values than the input can hold: the allocation request is bounded by the input length */
    __CPROVER_ensures(RET == NULL || *outCount <= bufferLen);
#endif

#include "varintTagged.c"
#include "varintExternal.c"
#include "varintDict.c"

#ifndef VERIF_NATIVE
/* ---- M1 ---- */
bool w_dictCompare(uint64_t a, uint64_t b, uint64_t c)
    __CPROVER_requires(1) __CPROVER_assigns() __CPROVER_ensures(RET == true)
{
    int ab = compareUint64(&a, &b), ba = compareUint64(&b, &a), bc = compareUint64(&b, &c), ac = compareUint64(&a, &c);
    return (ab < 0) == (a < b) && (ab == 0) == (a == b) && (ab > 0) == (a > b) && (ab < 0) == (ba > 0) &&
           (!(ab <= 0 && bc <= 0) || ac <= 0);   /* antisymmetric, transitive, consistent with < on the values */
}
void H_dictCompare(void) { uint64_t a, b, c; w_dictCompare(a, b, c); CANARY(); }

/* ---- M2: DecodeInto on arbitrary input ---- */
void H_dictDecodeInto(void) { uint8_t *b; size_t n; uint64_t *o; size_t m; varintDictDecodeInto(b, n, o, m); CANARY(); }

void H_dictDecode(void) { uint8_t *b; size_t n; size_t *oc; varintDictDecode(b, n, oc); CANARY(); }

/* ---- C18: allocation skeleton of the long-lived object, every subset of failing allocations ---- */
void H_dictCreateOOM(void) {
    varintDict *d = varintDictCreate();
    __CPROVER_assert(d == NULL || (d->values != NULL && d->capacity == 16 && d->size == 0), "dict create: NULL or a consistent empty dictionary");
    varintDictFree(d);   /* accepts NULL; everything allocated is released: checked by --memory-leak-check */
    CANARY();
}

/* ---- M3: round trip ---- */
void H_dictRoundTrip(void) {
    size_t count = DICT_N;   /* constant per job: symbolic-size memcpy/malloc exhaust CBMC */
    uint64_t v[DICT_N]; size_t k; __CPROVER_assume(k < count);
    size_t predicted = varintDictEncodedSize(v, count);
#ifdef DICT_OOM
    if (predicted == 0) return;   /* documented failure indication */
#else
    __CPROVER_assert(predicted >= 4, "dict: size predictor succeeds");
#endif
    uint8_t *buf = malloc(predicted); /* exactly the advertised size */
#ifdef DICT_OOM
    if (!buf) return;
#else
    __CPROVER_assume(buf != NULL);
#endif
    size_t n = varintDictEncode(buf, v, count);
#ifdef DICT_OOM
    if (n == 0) { free(buf); return; }
#endif
    __CPROVER_assert(n == predicted, "dict: encoder writes exactly varintDictEncodedSize bytes");
    size_t dc = 99;
    uint64_t *dec = varintDictDecode(buf, n, &dc);
#ifdef DICT_OOM
    if (dec)
#endif
    __CPROVER_assert(dec != NULL && dc == count && dec[k] == v[k], "dict: allocating decoder round trip from exactly the written bytes");
    free(dec);
    size_t cap; __CPROVER_assume(cap >= 1 && cap <= DICT_N);
    uint64_t out[DICT_N + 1]; out[DICT_N] = 0x5a5a5a5a5a5a5a5aULL;
    size_t d = varintDictDecodeInto(buf, n, out, cap);
#ifdef DICT_OOM
    if (d != 0)
#endif
    {
        if (cap < count) __CPROVER_assert(d == 0, "dict: too small a capacity is reported as 0");
        else __CPROVER_assert(d == count && out[k] == v[k], "dict: DecodeInto round trip");
    }
    __CPROVER_assert(out[DICT_N] == 0x5a5a5a5a5a5a5a5aULL, "dict: nothing beyond the output array");
    free(buf);
    CANARY();
}

/* ---- M3: long-lived dictionary object ---- */
void H_dictObject(void) {
    size_t count = DICT_N;
    uint64_t v[DICT_N]; size_t k; __CPROVER_assume(k < count);
    varintDict *d = varintDictCreate();
#ifdef DICT_OOM
    if (!d) return;
#else
    __CPROVER_assume(d != NULL);
#endif
    int rc = varintDictBuild(d, v, count);
#ifdef DICT_OOM
    if (rc != 0) {   /* failed build: the object stays usable (consistent size/capacity/width) */
        __CPROVER_assert(d->size <= d->capacity && d->values != NULL, "dict OOM: failed Build leaves a consistent dictionary");
        varintDictFree(d); return;
    }
#endif
    __CPROVER_assert(rc == 0 && d->size >= 1 && d->size <= count && d->size <= d->capacity, "dict: build");
    __CPROVER_assert(d->size < 2 || d->values[0] < d->values[1], "dict: entries strictly ascending");
    int32_t idx = varintDictFind(d, v[k]);
    __CPROVER_assert(idx >= 0 && (uint32_t)idx < d->size && varintDictLookup(d, (uint32_t)idx) == v[k], "dict: every input value is found at an index that looks it up");
    __CPROVER_assert(d->indexWidth == 1, "dict: index width for a small dictionary");
    size_t sz = varintDictEncodedSizeWithDict(d, count);
    uint8_t *buf = malloc(sz);
#ifdef DICT_OOM
    if (!buf) { varintDictFree(d); return; }
#else
    __CPROVER_assume(buf != NULL);
#endif
    size_t n = varintDictEncodeWithDict(buf, d, v, count);
    __CPROVER_assert(n == sz, "dict: EncodeWithDict writes exactly EncodedSizeWithDict bytes");
    free(buf);
    varintDictFree(d);
    CANARY();
}
#endif
