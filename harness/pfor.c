/* Patched frame of reference: /repo/src/varintPFOR.c.
 *   M1  compare_uint64 total order; exception marker per width; varintPFORSize against its formula
 *   M3  ComputeThreshold -> Size -> exact-size buffer -> Encode -> ReadMeta -> Decode -> GetAt, PFOR_N values, thresholds 90/95/99
 *       (C02, C03, C16); the same with failing allocations and leak detection (C18)
 * qsort: harness stub (exchange sort calling the real comparator), trusted. */
#include "callee_scalar.h"
#include "varintTagged.h"
#include "varintExternal.h"
#include "varintPFOR.h"
#ifndef PFOR_N
#define PFOR_N 2
#endif
#define M_TAGGED_LEN(v) ((v) <= 240 ? 1u : (v) <= 2287 ? 2u : (v) <= 67823 ? 3u : (v) <= 16777215ULL ? 4u : (v) <= 4294967295ULL ? 5u \
                       : (v) <= 1099511627775ULL ? 6u : (v) <= 281474976710655ULL ? 7u : (v) <= 72057594037927935ULL ? 8u : 9u)

#ifndef VERIF_NATIVE
void qsort(void *base, size_t nmemb, size_t size, int (*compar)(const void *, const void *)) {
    __CPROVER_assert(size == sizeof(uint64_t), "qsort stub: 8-byte elements only");
    uint64_t *a = (uint64_t *)base;
    for (size_t i = 0; i < nmemb; i++)
        for (size_t j = i + 1; j < nmemb; j++)
            if (compar(&a[j], &a[i]) < 0) { uint64_t t = a[i]; a[i] = a[j]; a[j] = t; }
}
/* size predictor: header + payload + per-exception worst case (index as large as count, 9-byte value) */
size_t varintPFORSize(const varintPFORMeta *meta)
    __CPROVER_requires(__CPROVER_r_ok(meta, sizeof(*meta)) && meta->width >= 1 && meta->width <= 8 && meta->exceptionCount <= meta->count)
    __CPROVER_assigns()
    __CPROVER_ensures(RET == M_TAGGED_LEN(meta->min) + 1 + M_TAGGED_LEN(meta->count) + (size_t)meta->count * meta->width +
                             M_TAGGED_LEN(meta->exceptionCount) + (size_t)meta->exceptionCount * (M_TAGGED_LEN(meta->count) + 9));
#endif

#include "varintTagged.c"
#include "varintExternal.c"
#include "varintPFOR.c"

#ifndef VERIF_NATIVE
bool w_pforCompare(uint64_t a, uint64_t b, uint64_t c)
    __CPROVER_requires(1) __CPROVER_assigns() __CPROVER_ensures(RET == true)
{
    int ab = compare_uint64(&a, &b), ba = compare_uint64(&b, &a), bc = compare_uint64(&b, &c), ac = compare_uint64(&a, &c);
    return (ab < 0) == (a < b) && (ab == 0) == (a == b) && (ab > 0) == (a > b) && (ab < 0) == (ba > 0) && (!(ab <= 0 && bc <= 0) || ac <= 0);
}
void H_pforCompare(void) { uint64_t a, b, c; w_pforCompare(a, b, c); CANARY(); }
bool w_pforMarker(varintWidth w)
    __CPROVER_requires(w >= 1 && w <= 8) __CPROVER_assigns() __CPROVER_ensures(RET == true)
{ return varintPFORCalculateMarker(w) == spec_ext_max(w); }
void H_pforMarker(void) { varintWidth w; w_pforMarker(w); CANARY(); }
void H_pforSize(void) { varintPFORMeta m; varintPFORSize(&m); CANARY(); }

void H_pforRoundTrip(void) {
    uint32_t count = PFOR_N;      /* constant per job: symbolic-size memcpy/malloc exhaust CBMC */
    uint64_t v[PFOR_N], out[PFOR_N]; uint32_t k; __CPROVER_assume(k < count);
    #ifdef PFOR_T
    uint32_t threshold = PFOR_T;
#else
    uint32_t threshold; __CPROVER_assume(threshold == 90 || threshold == 95 || threshold == 99);
#endif
    varintPFORMeta am;
    varintWidth w = varintPFORComputeThreshold(v, count, threshold, &am);
#ifdef PFOR_OOM
    if (am.count != count) return;     /* analysis ran out of memory: metadata zeroed */
#endif
    __CPROVER_assert(w == am.width && w >= 1 && w <= 8 && am.count == count && am.min <= v[k] && am.exceptionCount <= count, "PFOR: analysis metadata");
    size_t size = varintPFORSize(&am);
    /* fixed-size destination (an exact-size heap object of symbolic size exhausts CBMC): the byte at the arbitrary
     * position g at or beyond the advertised size must keep its prior (arbitrary) contents */
    uint8_t buf[PFOR_N * 20 + 32]; size_t g; __CPROVER_assume(g < sizeof(buf));
    __CPROVER_assert(size <= sizeof(buf), "PFOR: size predictor within its own worst case");
    uint8_t before_g = buf[g];
    varintPFORMeta em;
    size_t n = varintPFOREncode(buf, v, count, threshold, &em);
#ifdef PFOR_OOM
    if (n == 0) return;                /* documented failure indication */
#endif
    __CPROVER_assert(n >= 4 && n <= size && (g < size || buf[g] == before_g), "PFOR: encoder stays within varintPFORSize and returns what it wrote");
    __CPROVER_assert(em.count == count && em.min == am.min && em.width == am.width && em.exceptionCount == am.exceptionCount, "PFOR: encoder metadata equals the analysis");
    varintPFORMeta rm;
    varintPFORReadMeta(buf, &rm);
    __CPROVER_assert(rm.count == count && rm.min == em.min && rm.width == em.width && rm.exceptionCount == em.exceptionCount, "PFOR: header accessors report what was encoded");
    varintPFORMeta dm; memset(&dm, 0, sizeof(dm));
    size_t d = varintPFORDecode(buf, out, &dm);
    __CPROVER_assert(d == count && out[k] == v[k], "PFOR: round trip");
    __CPROVER_assert(varintPFORGetAt(buf, k, &dm) == v[k], "PFOR: random access agrees with the decoder");
    CANARY();
}
#endif
