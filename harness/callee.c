/* enforces the replacement-grade contracts of contracts/callee_scalar.h on the real functions */
#include "callee_scalar.h"
#include "varintTagged.h"
#include "varintExternal.h"
#include "varintTagged.c"
#include "varintExternal.c"

void H_cPut64(void) { uint64_t x; uint8_t *z = malloc(spec_tagged_len(x)); __CPROVER_assume(z != NULL); varintTaggedPut64(z, x); CANARY(); }
void H_cLen(void) { uint64_t x; varintTaggedLen(x); CANARY(); }
void H_cGet64(void) {
    unsigned n; __CPROVER_assume(n >= 1 && n <= 9);
    uint8_t *z = malloc(n); __CPROVER_assume(z != NULL);
    uint64_t r;
    __CPROVER_assume(spec_tagged_announced(z[0]) == n);  /* exactly the announced bytes are readable */
    varintTaggedGet64(z, &r); CANARY();
}
void H_cTaggedGet(void) {
    int32_t n; __CPROVER_assume(n >= 0 && n <= 9);
    uint8_t *z = malloc((size_t)n); __CPROVER_assume(z != NULL); uint64_t r;
    varintTaggedGet(z, n, &r); CANARY();
}
void H_cExtPut(void) { uint64_t v; varintWidth w; __CPROVER_assume(w >= 1 && w <= 8); uint8_t *p = malloc(w); __CPROVER_assume(p != NULL); varintExternalPutFixedWidth(p, v, w); CANARY(); }
void H_cExtGet(void) { varintWidth w; __CPROVER_assume(w >= 1 && w <= 8); uint8_t *p = malloc(w); __CPROVER_assume(p != NULL); varintExternalGet(p, w); CANARY(); }
