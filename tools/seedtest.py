#!/usr/bin/env python3
"""seedtest.py <dir with mK.diff/mK_demo.c/mK.json> [--tier quick|thorough] [--props C01,C04] [--only mK]

Evaluates candidate breaking changes (produced by independent sub-agents) against the checks:
for each mK: scratch worktree of /repo (under /tmp), apply the diff, (1) confirm the demo passes on
the unchanged tree and fails on the changed one, (2) optionally confirm the 13 ctest tests pass,
(3) run `bin/check <prop>` with VERIF_REPO pointing at the changed worktree.  The worktree is
removed afterwards.  Nothing is ever applied to /repo itself.
"""
import argparse, glob, json, os, re, shutil, subprocess, sys, tempfile

VERIF = os.path.dirname(os.path.dirname(os.path.abspath(__file__)))


def sh(cmd, **kw):
    return subprocess.run(cmd, shell=isinstance(cmd, str), capture_output=True, text=True, **kw)


def demo(repo, democ, compile_cmd, wd):
    exe = os.path.join(wd, "demo")
    cmd = compile_cmd.replace("REPO", repo)
    cmd = re.sub(r"\bm\d+_demo\.c\b", democ, cmd)
    cmd = re.sub(r"-o\s+\S+", "-o " + exe, cmd)
    r = sh(cmd, cwd=wd)
    if r.returncode != 0:
        return None, "compile failed: " + r.stderr[-600:]
    try:
        r = sh([exe], cwd=wd, timeout=300)
    except subprocess.TimeoutExpired:
        return 1, "timeout"
    return r.returncode, (r.stdout + r.stderr)[-400:]


def main():
    ap = argparse.ArgumentParser()
    ap.add_argument("dir")
    ap.add_argument("--tier", default="quick")
    ap.add_argument("--props")
    ap.add_argument("--only")
    ap.add_argument("--ctest", action="store_true")
    ap.add_argument("--check-args", default="")
    a = ap.parse_args()
    out = []
    for diff in sorted(glob.glob(os.path.join(a.dir, "m*.diff"))):
        k = os.path.basename(diff)[:-5]
        if a.only and k not in a.only.split(","):
            continue
        meta = {}
        mj = os.path.join(a.dir, k + ".json")
        if os.path.exists(mj):
            try:
                meta = json.load(open(mj))
            except Exception:
                pass
        democ = os.path.join(a.dir, k + "_demo.c")
        comp = meta.get("compile")
        if not comp and os.path.exists(democ):
            first = open(democ).readline()
            m = re.search(r"(gcc .*)", first)
            comp = m.group(1).rstrip("*/ \n") if m else None
        props = (a.props.split(",") if a.props else [meta.get("property")])
        wt = tempfile.mkdtemp(prefix="seed-%s-" % k, dir="/tmp")
        os.rmdir(wt)
        res = {"id": k, "props": props}
        try:
            r = sh(["git", "-C", "/repo", "worktree", "add", "--detach", wt, "HEAD"])
            assert r.returncode == 0, r.stderr
            wd = tempfile.mkdtemp(prefix="seed-wd-", dir="/tmp")
            if comp:
                rc0, o0 = demo(wt, democ, comp, wd)
                res["demo_clean"] = rc0
            r = sh(["git", "-C", wt, "apply", diff])
            if r.returncode != 0:
                res["error"] = "patch does not apply: " + r.stderr[-300:]
                out.append(res)
                continue
            if comp:
                rc1, o1 = demo(wt, democ, comp, wd)
                res["demo_mutated"] = rc1
                res["demo_out"] = o1[-200:]
            shutil.rmtree(wd, ignore_errors=True)
            if a.ctest:
                b = os.path.join(wt, "_build")
                r = sh("cmake -G Ninja -S %s -B %s >/dev/null && cmake --build %s >/dev/null 2>&1 && ctest --test-dir %s -j8 --timeout 900 2>&1 | tail -3" % (wt, b, b, b))
                res["ctest"] = "100% tests passed" in r.stdout
                shutil.rmtree(b, ignore_errors=True)
            env = dict(os.environ, VERIF_REPO=wt)
            res["checks"] = {}
            for p in props:
                cmd = [sys.executable, os.path.join(VERIF, "bin", "check"), p, "--tier", a.tier, "--no-evidence"] + a.check_args.split()
                r = subprocess.run(cmd, capture_output=True, text=True, env=env, cwd=VERIF)
                lines = [l for l in r.stdout.split("\n") if l.startswith(("VIOLATION", "UNDECIDED", "  failed", "KNOWN"))]
                res["checks"][p] = {"rc": r.returncode, "lines": lines[:8], "summary": r.stdout.strip().split("\n")[-1]}
        finally:
            sh(["git", "-C", "/repo", "worktree", "remove", "--force", wt])
            shutil.rmtree(wt, ignore_errors=True)
        out.append(res)
        print(json.dumps(res, indent=1), flush=True)
    caught = sum(1 for r in out if any(c["rc"] == 1 for c in r.get("checks", {}).values()))
    print("SUMMARY %s: %d/%d caught" % (a.dir, caught, len(out)))


if __name__ == "__main__":
    main()
