#!/usr/bin/env python3
"""confirm_seeds.py <wtout root> : for every <root>/<Cxx>/mK.diff confirm in a scratch worktree that the changed tree builds,
passes the 13 ctest tests, and that the demo passes on the clean tree and fails on the changed one.  Writes <root>/confirm.json"""
import glob, json, os, re, shutil, subprocess, sys, tempfile
from concurrent.futures import ThreadPoolExecutor
sys.path.insert(0, os.path.dirname(os.path.abspath(__file__)))
from seedtest import demo, sh

def one(diff):
    d = os.path.dirname(diff); k = os.path.basename(diff)[:-5]; prop = os.path.basename(d)
    meta = {}
    try: meta = json.load(open(os.path.join(d, k + ".json")))
    except Exception: pass
    democ = os.path.join(d, k + "_demo.c")
    comp = meta.get("compile")
    if not comp and os.path.exists(democ):
        m = re.search(r"(gcc .*)", open(democ).readline()); comp = m.group(1).rstrip("*/ \n") if m else None
    wt = tempfile.mkdtemp(prefix="conf-%s-%s-" % (prop, k), dir="/tmp"); os.rmdir(wt)
    res = {"property": prop, "id": k}
    try:
        assert sh(["git", "-C", "/repo", "worktree", "add", "--detach", wt, "HEAD"]).returncode == 0
        wd = tempfile.mkdtemp(prefix="conf-wd-", dir="/tmp")
        if comp: res["demo_clean"] = demo(wt, democ, comp, wd)[0]
        r = sh(["git", "-C", wt, "apply", diff])
        res["applies"] = r.returncode == 0
        if r.returncode == 0:
            if comp: res["demo_mutated"] = demo(wt, democ, comp, wd)[0]
            b = os.path.join(wt, "_build")
            r = sh("cmake -G Ninja -S %s -B %s >/dev/null && cmake --build %s -j4 >/dev/null 2>&1 && ctest --test-dir %s -j4 --timeout 900 2>&1 | tail -3" % (wt, b, b, b))
            res["ctest_pass"] = "100% tests passed" in r.stdout
        shutil.rmtree(wd, ignore_errors=True)
    finally:
        sh(["git", "-C", "/repo", "worktree", "remove", "--force", wt]); shutil.rmtree(wt, ignore_errors=True)
    return res

root = sys.argv[1]
diffs = sorted(glob.glob(os.path.join(root, "C*", "m*.diff")))
with ThreadPoolExecutor(max_workers=3) as ex:
    out = list(ex.map(one, diffs))
json.dump(out, open(os.path.join(root, "confirm.json"), "w"), indent=1)
for r in out: print(r)
