/* Reference ("spec") functions for the scalar varint wire formats.
 *
 * Written from the documented formats (the sqlite4 ENCODE table quoted in
 * varintTagged.c, the "Data Layout" comments of the split headers, the README
 * table) and from the property statements -- NOT from the implementation.
 * Pure C, no repo headers, so the same text is compiled into CBMC contracts
 * and into the native replay drivers.
 *
 * For each family F:  spec_F_len(v)   = number of bytes of the encoding of v
 *                     spec_F_byte(v,k)= byte k (0-based, memory order)        */
#pragma once
#include <stdint.h>

/* ---------- external (little / big endian minimal byte slice) ---------- */
static inline unsigned spec_ext_len(uint64_t v) {
    return v <= 0xffULL ? 1 : v <= 0xffffULL ? 2 : v <= 0xffffffULL ? 3 : v <= 0xffffffffULL ? 4
         : v <= 0xffffffffffULL ? 5 : v <= 0xffffffffffffULL ? 6 : v <= 0xffffffffffffffULL ? 7 : 8;
}
static inline uint8_t spec_ext_byte(uint64_t v, unsigned k) { /* little endian */
    return k < 8 ? (uint8_t)(v >> (8 * k)) : 0;
}
/* fixed width w (1..8) big-endian: byte k is the (w-1-k)-th least significant */
static inline uint8_t spec_extbe_byte_w(uint64_t v, unsigned w, unsigned k) {
    return (k < w && w <= 8) ? (uint8_t)(v >> (8 * (w - 1 - k))) : 0;
}
static inline uint8_t spec_extbe_byte(uint64_t v, unsigned k) {
    return spec_extbe_byte_w(v, spec_ext_len(v), k);
}
/* largest value a w-byte external varint holds */
static inline uint64_t spec_ext_max(unsigned w) {
    return w >= 8 ? UINT64_MAX : (((uint64_t)1) << (8 * w)) - 1;
}

/* ---------- tagged (sqlite4) ---------- */
static inline unsigned spec_tagged_len(uint64_t v) {
    return v <= 240 ? 1 : v <= 2287 ? 2 : v <= 67823 ? 3 : v <= 16777215ULL ? 4
         : v <= 4294967295ULL ? 5 : v <= 1099511627775ULL ? 6
         : v <= 281474976710655ULL ? 7 : v <= 72057594037927935ULL ? 8 : 9;
}
/* bytes of a tagged varint of declared length n (n >= spec_tagged_len(v));
 * n == spec_tagged_len(v) gives the canonical encoding */
static inline uint8_t spec_tagged_byte_n(uint64_t v, unsigned n, unsigned k) {
    if (n == 1) return (uint8_t)v;
    if (n == 2) return k == 0 ? (uint8_t)((v - 240) / 256 + 241) : (uint8_t)((v - 240) % 256);
    if (n == 3) return k == 0 ? 249 : k == 1 ? (uint8_t)((v - 2288) / 256) : (uint8_t)((v - 2288) % 256);
    if (k == 0) return (uint8_t)(246 + n);          /* 250..255 for n = 4..9 */
    return k < n ? (uint8_t)(v >> (8 * (n - 1 - k))) : 0; /* big-endian payload of n-1 bytes */
}
static inline uint8_t spec_tagged_byte(uint64_t v, unsigned k) {
    return spec_tagged_byte_n(v, spec_tagged_len(v), k);
}
/* smallest value that may legally be stored with fixed width n (the 2- and
 * 3-byte forms subtract an offset; the payload forms hold any smaller value) */
static inline int spec_tagged_fixed_ok(uint64_t v, unsigned n) {
    if (n < spec_tagged_len(v) || n > 9) return 0;
    if (n == 1) return 1;
    if (n == 2) return v >= 240;
    if (n == 3) return v >= 2288;
    return 1;
}

/* ---------- chained (sqlite3: big-endian 7-bit groups, full ninth byte) ---------- */
static inline unsigned spec_chained_len(uint64_t v) {
    return v < (1ULL << 7) ? 1 : v < (1ULL << 14) ? 2 : v < (1ULL << 21) ? 3 : v < (1ULL << 28) ? 4
         : v < (1ULL << 35) ? 5 : v < (1ULL << 42) ? 6 : v < (1ULL << 49) ? 7 : v < (1ULL << 56) ? 8 : 9;
}
static inline uint8_t spec_chained_byte(uint64_t v, unsigned k) {
    unsigned n = spec_chained_len(v);
    if (k >= n) return 0;
    if (n == 9) {
        if (k == 8) return (uint8_t)v;
        return (uint8_t)(((v >> (8 + 7 * (7 - k))) & 0x7f) | 0x80);
    }
    return (uint8_t)(((v >> (7 * (n - 1 - k))) & 0x7f) | (k < n - 1 ? 0x80 : 0));
}

/* ---------- chained-simple (leveldb: little-endian base-128, capped at nine) ---------- */
static inline unsigned spec_chainedsimple_len(uint64_t v) { return spec_chained_len(v); }
static inline uint8_t spec_chainedsimple_byte(uint64_t v, unsigned k) {
    unsigned n = spec_chained_len(v);
    if (k >= n) return 0;
    if (k == 8) return (uint8_t)(v >> 56);
    return (uint8_t)(((v >> (7 * k)) & 0x7f) | (k < n - 1 ? 0x80 : 0));
}

/* ---------- split families ----------
 * forward layout: [type byte][payload]; embedded levels store the payload
 * big-endian with its top 6 bits in the type byte; the external ("VAR")
 * level stores (v - previous maximum) as a little-endian external varint of
 * the width named in the type byte. */
static inline uint8_t spec__emb(uint64_t t, unsigned n, unsigned k, uint8_t tag) {
    /* n-byte embedded level holding t in 6 + 8(n-1) bits, big-endian */
    if (k == 0) return (uint8_t)(tag | ((t >> (8 * (n - 1))) & 0x3f));
    return k < n ? (uint8_t)(t >> (8 * (n - 1 - k))) : 0;
}
static inline uint8_t spec__var(uint64_t t, unsigned w, unsigned k, uint8_t tag) {
    if (k == 0) return (uint8_t)(tag | w);
    return k <= w ? (uint8_t)(t >> (8 * (k - 1))) : 0;
}
static inline unsigned spec__max(unsigned a, unsigned b) { return a > b ? a : b; }

/* split: 00 six bits | 01 fourteen bits (+63) | 10 external (+16446) */
static inline unsigned spec_split_len(uint64_t v) {
    return v <= 63 ? 1 : v <= 16446 ? 2 : 1 + spec_ext_len(v - 16446);
}
static inline uint8_t spec_split_byte(uint64_t v, unsigned k) {
    if (v <= 63) return (uint8_t)v;
    if (v <= 16446) return spec__emb(v - 63, 2, k, 0x40);
    return spec__var(v - 16446, spec_ext_len(v - 16446), k, 0x80);
}
static inline int spec_split_embedded(uint64_t v) { return v <= 16446; }

/* split-full: 00 | 01 (+63) | 10 twenty-two bits (+16446) | 11 external (+4210749),
 * the external level never uses fewer than 2 payload bytes (never-shrink rule) */
static inline unsigned spec_splitfull_len(uint64_t v) {
    return v <= 63 ? 1 : v <= 16446 ? 2 : v <= 4210749 ? 3 : 1 + spec__max(2, spec_ext_len(v - 4210749));
}
static inline uint8_t spec_splitfull_byte(uint64_t v, unsigned k) {
    if (v <= 63) return (uint8_t)v;
    if (v <= 16446) return spec__emb(v - 63, 2, k, 0x40);
    if (v <= 4210749) return spec__emb(v - 16446, 3, k, 0x80);
    return spec__var(v - 4210749, spec__max(2, spec_ext_len(v - 4210749)), k, 0xc0);
}
static inline int spec_splitfull_embedded(uint64_t v) { return v <= 4210749; }

/* split-full-no-zero: values >= 1; 00 (v-1) | 01 (+64) | 10 (+16447) | 11 external (+4210750) */
static inline unsigned spec_splitfullnozero_len(uint64_t v) {
    return v <= 64 ? 1 : v <= 16447 ? 2 : v <= 4210750 ? 3 : 1 + spec__max(2, spec_ext_len(v - 4210750));
}
static inline uint8_t spec_splitfullnozero_byte(uint64_t v, unsigned k) {
    if (v <= 64) return (uint8_t)(v - 1);
    if (v <= 16447) return spec__emb(v - 64, 2, k, 0x40);
    if (v <= 4210750) return spec__emb(v - 16447, 3, k, 0x80);
    return spec__var(v - 4210750, spec__max(2, spec_ext_len(v - 4210750)), k, 0xc0);
}
static inline int spec_splitfullnozero_embedded(uint64_t v) { return v <= 4210750; }

/* split-full-16: 00 fourteen bits | 01 twenty-two (+16383) | 10 thirty (+4210686) |
 * 11 external (+1077952509) with at least 4 payload bytes */
static inline unsigned spec_splitfull16_len(uint64_t v) {
    return v <= 16383 ? 2 : v <= 4210686 ? 3 : v <= 1077952509ULL ? 4
         : 1 + spec__max(4, spec_ext_len(v - 1077952509ULL));
}
static inline uint8_t spec_splitfull16_byte(uint64_t v, unsigned k) {
    if (v <= 16383) return spec__emb(v, 2, k, 0x00);
    if (v <= 4210686) return spec__emb(v - 16383, 3, k, 0x40);
    if (v <= 1077952509ULL) return spec__emb(v - 4210686, 4, k, 0x80);
    return spec__var(v - 1077952509ULL, spec__max(4, spec_ext_len(v - 1077952509ULL)), k, 0xc0);
}

/* reversed forms (type byte last, "little endian"): embedded levels are the
 * forward bytes in reverse order; the external level is the little-endian
 * payload followed by the type byte */
#define SPEC_REV_BYTE(fam, v, k)                                                        \
    ((k) + 1 == spec_##fam##_len(v)                                                     \
         ? spec_##fam##_byte((v), 0)                                                    \
         : (spec_##fam##_embedded(v) ? spec_##fam##_byte((v), spec_##fam##_len(v) - 1 - (k)) \
                                     : spec_##fam##_byte((v), (k) + 1)))
static inline uint8_t spec_split_rev_byte(uint64_t v, unsigned k) { return SPEC_REV_BYTE(split, v, k); }
static inline uint8_t spec_splitfull_rev_byte(uint64_t v, unsigned k) { return SPEC_REV_BYTE(splitfull, v, k); }
static inline uint8_t spec_splitfullnozero_rev_byte(uint64_t v, unsigned k) { return SPEC_REV_BYTE(splitfullnozero, v, k); }

/* ---------- zig-zag ---------- */
static inline uint64_t spec_zigzag(int64_t n) { return n >= 0 ? 2 * (uint64_t)n : 2 * (uint64_t)(-(n + 1)) + 1; }
static inline int64_t spec_unzigzag(uint64_t u) { return (u & 1) ? -(int64_t)(u >> 1) - 1 : (int64_t)(u >> 1); }
