/* contract-writing helpers shared by all harness translation units.
 *
 * Two expansions of the same text:
 *   default (goto-cc, -DVARINT_VERIF_CBMC): C_* macros produce contract-carrying
 *       prototypes for the real functions, W_* produce one-line wrappers (macro
 *       fast paths) with contracts, H_* produce the proof harness;
 *   -DVERIF_NATIVE (gcc, replay): C_* vanish, W_* keep only the body, H_*
 *       become a native check of the same pre/postcondition on the traced
 *       inputs IN_<name> (exact-size malloc + ASan stands in for is_fresh +
 *       pointer checks).  main() calls RP_ENTRY. */
#pragma once
#include <stdint.h>
#include <stddef.h>
#include <stdbool.h>
#include <stdlib.h>
#include <string.h>

#ifndef VERIF_NATIVE
#define RET __CPROVER_return_value
#define FRESH(p, n) __CPROVER_is_fresh((p), (n))
#define CANARY() __CPROVER_assert(0, "canary: end of harness reachable")
#define CONTRACT(...) __VA_ARGS__
/* ghosts are set from harness locals so that they show up in the counterexample trace */
#define SET_GHOSTS() uint64_t gv_; unsigned gn_; g_v = gv_; g_n = gn_
#else
#include <stdio.h>
#include "replay_inputs.h"
/* inputs the trace did not mention default to 0 */
#ifndef IN_x
#define IN_x 0
#endif
#ifndef IN_width
#define IN_width 0
#endif
#ifndef IN_n
#define IN_n 0
#endif
#ifndef IN_a
#define IN_a 0
#endif
#ifndef IN_b
#define IN_b 0
#endif
static int rp_failed = 0;
#define RP_CHECK(c) do { if (!(c)) { printf("REPLAY: contract clause violated on the real code: %s\n", #c); rp_failed = 1; } } while (0)
#define CANARY() ((void)0)
#define CONTRACT(...)
#define __CPROVER_assert(c, m) ((void)0)
/* exact-size heap object; contents arbitrary but fixed */
static inline void *rp_fresh(size_t n) { void *p = malloc(n ? n : 1); memset(p, 0xA5, n ? n : 1); return p; }
#endif

/* every produced byte equals the spec byte (positions 0..8, unrolled) */
#define ENSURES_BYTES(z, n, BYTE, x)                                  \
    __CPROVER_ensures((n) < 1 || ((const uint8_t *)(z))[0] == BYTE((x), 0))              \
    __CPROVER_ensures((n) < 2 || ((const uint8_t *)(z))[1] == BYTE((x), 1))              \
    __CPROVER_ensures((n) < 3 || ((const uint8_t *)(z))[2] == BYTE((x), 2))              \
    __CPROVER_ensures((n) < 4 || ((const uint8_t *)(z))[3] == BYTE((x), 3))              \
    __CPROVER_ensures((n) < 5 || ((const uint8_t *)(z))[4] == BYTE((x), 4))              \
    __CPROVER_ensures((n) < 6 || ((const uint8_t *)(z))[5] == BYTE((x), 5))              \
    __CPROVER_ensures((n) < 7 || ((const uint8_t *)(z))[6] == BYTE((x), 6))              \
    __CPROVER_ensures((n) < 8 || ((const uint8_t *)(z))[7] == BYTE((x), 7))              \
    __CPROVER_ensures((n) < 9 || ((const uint8_t *)(z))[8] == BYTE((x), 8))

/* the input object is exactly the n spec bytes of the ghost value v */
#define REQUIRES_BYTES(z, n, BYTE, v)                                 \
    __CPROVER_requires(FRESH((z), (n)))                               \
    __CPROVER_requires((n) < 1 || (z)[0] == BYTE((v), 0))             \
    __CPROVER_requires((n) < 2 || (z)[1] == BYTE((v), 1))             \
    __CPROVER_requires((n) < 3 || (z)[2] == BYTE((v), 2))             \
    __CPROVER_requires((n) < 4 || (z)[3] == BYTE((v), 3))             \
    __CPROVER_requires((n) < 5 || (z)[4] == BYTE((v), 4))             \
    __CPROVER_requires((n) < 6 || (z)[5] == BYTE((v), 5))             \
    __CPROVER_requires((n) < 7 || (z)[6] == BYTE((v), 6))             \
    __CPROVER_requires((n) < 8 || (z)[7] == BYTE((v), 7))             \
    __CPROVER_requires((n) < 9 || (z)[8] == BYTE((v), 8))

/* fill a buffer with the spec bytes */
#define FILL_BYTES(z, n, BYTE, v)                                     \
    do {                                                              \
        for (unsigned fb_k = 0; fb_k < (unsigned)(n) && fb_k < 9; fb_k++) { (z)[fb_k] = BYTE((v), fb_k); } \
    } while (0)
#define RP_CHECK_BYTES(z, n, BYTE, x)                                 \
    do {                                                              \
        for (unsigned cb_k = 0; cb_k < (unsigned)(n) && cb_k < 9; cb_k++) { RP_CHECK((z)[cb_k] == BYTE((x), cb_k)); } \
    } while (0)

/* =====================================================================
 * Templates.  ghost globals g_v (value handed to a decoder) and g_n (declared
 * width for families that allow non-minimal widths) are defined by the TU.
 * ===================================================================== */

/* --- encoder  RT fn(uint8_t *z, T x): exact-size destination, exact bytes --- */
#define P_PUT_CLAUSES(LEN, BYTE, LO, HI, DOM)                                          \
    __CPROVER_requires(DOM(x))                                                         \
    __CPROVER_requires(FRESH(z, LEN(x)))                                               \
    __CPROVER_assigns(__CPROVER_object_whole(z))                                       \
    __CPROVER_ensures(RET == LEN(x) && RET >= (LO) && RET <= (HI))                     \
    ENSURES_BYTES(z, RET, BYTE, x)
#define DOM_ANY(x) 1
#define DOM_NONZERO(x) ((x) != 0)
#define DOM_NONNEG_U(x) ((x) <= (uint64_t)INT64_MAX)

#ifndef VERIF_NATIVE
#define C_PUT(fn, RT, ZT, T, LEN, BYTE, LO, HI, DOM) RT fn(ZT *z, T x) P_PUT_CLAUSES(LEN, BYTE, LO, HI, DOM);
#define W_PUT(fn, RT, ZT, T, LEN, BYTE, LO, HI, DOM, ...) RT fn(ZT *z, T x) P_PUT_CLAUSES(LEN, BYTE, LO, HI, DOM) __VA_ARGS__
#define H_PUT(hn, fn, RT, ZT, T, LEN, BYTE, LO, HI, DOM) void hn(void) { ZT *z; T x; fn(z, x); CANARY(); }
#else
#define C_PUT(fn, RT, ZT, T, LEN, BYTE, LO, HI, DOM)
#define W_PUT(fn, RT, ZT, T, LEN, BYTE, LO, HI, DOM, ...) RT fn(ZT *z, T x) __VA_ARGS__
#define H_PUT(hn, fn, RT, ZT, T, LEN, BYTE, LO, HI, DOM)                               \
    void hn(void) {                                                                    \
        T x = (T)IN_x;                                                                 \
        if (!(DOM(x))) { printf("REPLAY: input outside the precondition\n"); return; } \
        unsigned n = LEN(x);                                                           \
        uint8_t *z = rp_fresh(n);                                                      \
        unsigned r = (unsigned)fn((ZT *)z, x);                                         \
        RP_CHECK(r == n && r >= (LO) && r <= (HI));                                    \
        RP_CHECK_BYTES(z, n, BYTE, x);                                                 \
        free(z);                                                                       \
    }
#endif

/* --- fixed-width encoder  RT fn(ZT *z, uint64_t x, varintWidth width) ---
 * OKW(x,width): width legal for x; BYTEW(x,width,k): byte k of the width-byte form;
 * RETOK(ret,width): what the return value must be (1 for void functions) */
#define P_PUTW_CLAUSES(OKW, BYTEW)                                                     \
    __CPROVER_requires(OKW(x, width))                                                  \
    __CPROVER_requires(FRESH(z, width))                                                \
    __CPROVER_assigns(__CPROVER_object_whole(z))                                       \
    __CPROVER_ensures((width) < 1 || ((uint8_t *)z)[0] == BYTEW(x, width, 0))          \
    __CPROVER_ensures((width) < 2 || ((uint8_t *)z)[1] == BYTEW(x, width, 1))          \
    __CPROVER_ensures((width) < 3 || ((uint8_t *)z)[2] == BYTEW(x, width, 2))          \
    __CPROVER_ensures((width) < 4 || ((uint8_t *)z)[3] == BYTEW(x, width, 3))          \
    __CPROVER_ensures((width) < 5 || ((uint8_t *)z)[4] == BYTEW(x, width, 4))          \
    __CPROVER_ensures((width) < 6 || ((uint8_t *)z)[5] == BYTEW(x, width, 5))          \
    __CPROVER_ensures((width) < 7 || ((uint8_t *)z)[6] == BYTEW(x, width, 6))          \
    __CPROVER_ensures((width) < 8 || ((uint8_t *)z)[7] == BYTEW(x, width, 7))          \
    __CPROVER_ensures((width) < 9 || ((uint8_t *)z)[8] == BYTEW(x, width, 8))
#ifndef VERIF_NATIVE
#define C_PUTW(fn, ZT, OKW, BYTEW) varintWidth fn(ZT *z, uint64_t x, varintWidth width) P_PUTW_CLAUSES(OKW, BYTEW) __CPROVER_ensures(RET == width);
#define C_PUTW_VOID(fn, ZT, OKW, BYTEW) void fn(ZT *z, uint64_t x, varintWidth width) P_PUTW_CLAUSES(OKW, BYTEW);
#define W_PUTW(fn, ZT, OKW, BYTEW, ...) varintWidth fn(ZT *z, uint64_t x, varintWidth width) P_PUTW_CLAUSES(OKW, BYTEW) __CPROVER_ensures(RET == width) __VA_ARGS__
#define H_PUTW(hn, fn, ZT, OKW, BYTEW, ISVOID) void hn(void) { ZT *z; uint64_t x; varintWidth width; fn(z, x, width); CANARY(); }
#else
#define C_PUTW(fn, ZT, OKW, BYTEW)
#define C_PUTW_VOID(fn, ZT, OKW, BYTEW)
#define W_PUTW(fn, ZT, OKW, BYTEW, ...) varintWidth fn(ZT *z, uint64_t x, varintWidth width) __VA_ARGS__
#define RP_CALLW_0(fn, z, x, w) RP_CHECK((unsigned)fn(z, x, w) == (unsigned)(w))
#define RP_CALLW_1(fn, z, x, w) fn(z, x, w)
#define H_PUTW(hn, fn, ZT, OKW, BYTEW, ISVOID)                                         \
    void hn(void) {                                                                    \
        uint64_t x = IN_x; varintWidth width = (varintWidth)IN_width;                  \
        if (!(OKW(x, width))) { printf("REPLAY: input outside the precondition\n"); return; } \
        uint8_t *z = rp_fresh(width);                                                  \
        RP_CALLW_##ISVOID(fn, (ZT *)z, x, width);                                      \
        for (unsigned k = 0; k < (unsigned)width; k++) RP_CHECK(z[k] == BYTEW(x, width, k)); \
        free(z);                                                                       \
    }
#endif

/* --- length from value  RT fn(T x) --- */
#ifndef VERIF_NATIVE
#define C_LEN(fn, RT, T, LEN, DOM) RT fn(T x) __CPROVER_requires(DOM(x)) __CPROVER_assigns() __CPROVER_ensures(RET == LEN(x));
#define W_LEN(fn, RT, T, LEN, DOM, ...) RT fn(T x) __CPROVER_requires(DOM(x)) __CPROVER_assigns() __CPROVER_ensures(RET == LEN(x)) __VA_ARGS__
#define H_LEN(hn, fn, T, LEN, DOM) void hn(void) { T x; fn(x); CANARY(); }
#else
#define C_LEN(fn, RT, T, LEN, DOM)
#define W_LEN(fn, RT, T, LEN, DOM, ...) RT fn(T x) __VA_ARGS__
#define H_LEN(hn, fn, T, LEN, DOM) void hn(void) { T x = (T)IN_x; if (!(DOM(x))) return; RP_CHECK((unsigned)fn(x) == LEN(x)); }
#endif

/* --- length from the stored type byte  RT fn(const uint8_t *z): only that byte is readable.
 * GN = declared length of the ghost encoding, B0 = its type byte, GOK = ghost admissible --- */
#define P_GETLEN_CLAUSES(GN, B0, GOK)                                                  \
    __CPROVER_requires(GOK)                                                            \
    __CPROVER_requires(FRESH(z, 1))                                                    \
    __CPROVER_requires(z[0] == (B0))                                                   \
    __CPROVER_assigns()                                                                \
    __CPROVER_ensures(RET == (GN))
#ifndef VERIF_NATIVE
#define C_GETLEN(fn, RT, GN, B0, GOK) RT fn(const uint8_t *z) P_GETLEN_CLAUSES(GN, B0, GOK);
#define W_GETLEN(fn, RT, GN, B0, GOK, ...) RT fn(const uint8_t *z) P_GETLEN_CLAUSES(GN, B0, GOK) __VA_ARGS__
#define H_GETLEN(hn, fn, GN, B0, GOK) void hn(void) { SET_GHOSTS(); uint8_t *z; fn(z); CANARY(); }
#else
#define C_GETLEN(fn, RT, GN, B0, GOK)
#define W_GETLEN(fn, RT, GN, B0, GOK, ...) RT fn(const uint8_t *z) __VA_ARGS__
#define H_GETLEN(hn, fn, GN, B0, GOK)                                                  \
    void hn(void) {                                                                    \
        RP_GHOSTS();                                                                   \
        if (!(GOK)) { printf("REPLAY: input outside the precondition\n"); return; }    \
        uint8_t *z = rp_fresh(1); z[0] = (B0);                                         \
        RP_CHECK((unsigned)fn(z) == (unsigned)(GN));                                   \
        free(z);                                                                       \
    }
#endif

/* --- decoder  RT fn(const ZT *z, OT *out): input object is exactly the ghost's encoding --- */
#define P_GET_CLAUSES(OT, GN, BYTE, GOK)                                               \
    __CPROVER_requires(GOK)                                                            \
    REQUIRES_BYTES(((const uint8_t *)z), (GN), BYTE, g_v)                              \
    __CPROVER_requires(FRESH(out, sizeof(OT)))                                         \
    __CPROVER_assigns(*out)                                                            \
    __CPROVER_ensures(RET == (GN) && *out == (OT)g_v)
#ifndef VERIF_NATIVE
#define C_GET(fn, RT, ZT, OT, GN, BYTE, GOK) RT fn(const ZT *z, OT *out) P_GET_CLAUSES(OT, GN, BYTE, GOK);
#define W_GET(fn, RT, ZT, OT, GN, BYTE, GOK, ...) RT fn(const ZT *z, OT *out) P_GET_CLAUSES(OT, GN, BYTE, GOK) __VA_ARGS__
#define H_GET(hn, fn, ZT, OT, GN, BYTE, GOK) void hn(void) { SET_GHOSTS(); ZT *z; OT *out; fn(z, out); CANARY(); }
#else
#define C_GET(fn, RT, ZT, OT, GN, BYTE, GOK)
#define W_GET(fn, RT, ZT, OT, GN, BYTE, GOK, ...) RT fn(const ZT *z, OT *out) __VA_ARGS__
#define H_GET(hn, fn, ZT, OT, GN, BYTE, GOK)                                           \
    void hn(void) {                                                                    \
        RP_GHOSTS();                                                                   \
        if (!(GOK)) { printf("REPLAY: input outside the precondition\n"); return; }    \
        unsigned n = (GN);                                                             \
        uint8_t *z = rp_fresh(n); FILL_BYTES(z, n, BYTE, g_v);                         \
        OT *out = rp_fresh(sizeof(OT));                                                \
        unsigned r = (unsigned)fn((const ZT *)z, out);                                 \
        RP_CHECK(r == n && *out == (OT)g_v);                                           \
        free(z); free(out);                                                            \
    }
#endif

/* --- decoder returning the value  uint64_t fn(const ZT *z) --- */
#define P_GETRV_CLAUSES(GN, BYTE, GOK)                                                 \
    __CPROVER_requires(GOK)                                                            \
    REQUIRES_BYTES(((const uint8_t *)z), (GN), BYTE, g_v)                              \
    __CPROVER_assigns()                                                                \
    __CPROVER_ensures(RET == g_v)
#ifndef VERIF_NATIVE
#define C_GETRV(fn, ZT, GN, BYTE, GOK) uint64_t fn(const ZT *z) P_GETRV_CLAUSES(GN, BYTE, GOK);
#define W_GETRV(fn, ZT, GN, BYTE, GOK, ...) uint64_t fn(const ZT *z) P_GETRV_CLAUSES(GN, BYTE, GOK) __VA_ARGS__
#define H_GETRV(hn, fn, ZT, GN, BYTE, GOK) void hn(void) { SET_GHOSTS(); ZT *z; fn(z); CANARY(); }
#else
#define C_GETRV(fn, ZT, GN, BYTE, GOK)
#define W_GETRV(fn, ZT, GN, BYTE, GOK, ...) uint64_t fn(const ZT *z) __VA_ARGS__
#define H_GETRV(hn, fn, ZT, GN, BYTE, GOK)                                             \
    void hn(void) {                                                                    \
        RP_GHOSTS();                                                                   \
        if (!(GOK)) { printf("REPLAY: input outside the precondition\n"); return; }    \
        unsigned n = (GN);                                                             \
        uint8_t *z = rp_fresh(n); FILL_BYTES(z, n, BYTE, g_v);                         \
        RP_CHECK(fn((const ZT *)z) == g_v);                                            \
        free(z);                                                                       \
    }
#endif

/* --- relational wrapper  bool fn(uint64_t x): must return true for every x in DOM --- */
#ifndef VERIF_NATIVE
#define W_REL(fn, T, DOM, ...) bool fn(T x) __CPROVER_requires(DOM(x)) __CPROVER_assigns() __CPROVER_ensures(RET == true) __VA_ARGS__
#define H_REL(hn, fn, T, DOM) void hn(void) { T x; fn(x); CANARY(); }
#else
#define W_REL(fn, T, DOM, ...) bool fn(T x) __VA_ARGS__
#define H_REL(hn, fn, T, DOM) void hn(void) { T x = (T)IN_x; if (!(DOM(x))) return; RP_CHECK(fn(x) == true); }
#endif

/* --- relational wrapper over two values  bool fn(T a, T b) --- */
#ifndef VERIF_NATIVE
#define W_REL2(fn, T, DOM, ...) bool fn(T a, T b) __CPROVER_requires(DOM(a) && DOM(b)) __CPROVER_assigns() __CPROVER_ensures(RET == true) __VA_ARGS__
#define H_REL2(hn, fn, T, DOM) void hn(void) { T a; T b; fn(a, b); CANARY(); }
#define W_REL0(fn, ...) bool fn(void) __CPROVER_assigns() __CPROVER_ensures(RET == true) __VA_ARGS__
#define H_REL0(hn, fn) void hn(void) { fn(); CANARY(); }
#else
#define W_REL2(fn, T, DOM, ...) bool fn(T a, T b) __VA_ARGS__
#define H_REL2(hn, fn, T, DOM) void hn(void) { T a = (T)IN_a; T b = (T)IN_b; if (!(DOM(a) && DOM(b))) return; RP_CHECK(fn(a, b) == true); }
#define W_REL0(fn, ...) bool fn(void) __VA_ARGS__
#define H_REL0(hn, fn) void hn(void) { RP_CHECK(fn() == true); }
#endif

/* ghosts in native mode come from the trace of the globals */
#ifdef VERIF_NATIVE
#ifndef IN_g_v
#define IN_g_v 0
#endif
#ifndef IN_g_n
#define IN_g_n 0
#endif
#define RP_GHOSTS() do { g_v = IN_g_v; g_n = (unsigned)IN_g_n; } while (0)
#define RP_MAIN() int main(void) { RP_ENTRY(); if (!rp_failed) printf("REPLAY: contract holds on these inputs\n"); return rp_failed; }
#else
#define RP_MAIN()
#endif
