/* native sanity test of the spec library against the maxima published in the
 * README table / header comments (typed in by hand from the documentation) */
#include <stdio.h>
#include "spec_scalar.h"
static int bad = 0;
#define CK(c) do { if (!(c)) { printf("spec selftest FAILED: %s\n", #c); bad = 1; } } while (0)
#define BOUND(len, max, k) CK(len(max) == (k) && len((uint64_t)(max) + 1) == (k) + 1)
int main(void) {
    /* tagged: 240, 2287, 67823, 2^24-1, 2^32-1, 2^40-1, 2^48-1, 2^56-1 */
    BOUND(spec_tagged_len, 240ULL, 1); BOUND(spec_tagged_len, 2287ULL, 2); BOUND(spec_tagged_len, 67823ULL, 3);
    BOUND(spec_tagged_len, 16777215ULL, 4); BOUND(spec_tagged_len, 4294967295ULL, 5);
    BOUND(spec_tagged_len, 1099511627775ULL, 6); BOUND(spec_tagged_len, 281474976710655ULL, 7);
    BOUND(spec_tagged_len, 72057594037927935ULL, 8); CK(spec_tagged_len(UINT64_MAX) == 9);
    /* split: 63, 16446, 16701, 81981, 16793661, 4294983741, 1099511644221, 281474976727101, 72057594037944381 */
    BOUND(spec_split_len, 63ULL, 1); BOUND(spec_split_len, 16701ULL, 2); BOUND(spec_split_len, 81981ULL, 3);
    BOUND(spec_split_len, 16793661ULL, 4); BOUND(spec_split_len, 4294983741ULL, 5);
    BOUND(spec_split_len, 1099511644221ULL, 6); BOUND(spec_split_len, 281474976727101ULL, 7);
    BOUND(spec_split_len, 72057594037944381ULL, 8); CK(spec_split_len(UINT64_MAX) == 9);
    CK(spec_split_len(16446) == 2 && spec_split_len(16447) == 2);
    /* split-full: 63, 16446, 4276284 (3 bytes incl. never-shrink), 20987964, 4299178044, ... */
    BOUND(spec_splitfull_len, 63ULL, 1); BOUND(spec_splitfull_len, 16446ULL, 2); BOUND(spec_splitfull_len, 4276284ULL, 3);
    BOUND(spec_splitfull_len, 20987964ULL, 4); BOUND(spec_splitfull_len, 4299178044ULL, 5);
    BOUND(spec_splitfull_len, 1099515838524ULL, 6); BOUND(spec_splitfull_len, 281474980921404ULL, 7);
    BOUND(spec_splitfull_len, 72057594042138684ULL, 8); CK(spec_splitfull_len(UINT64_MAX) == 9);
    CK(spec_splitfull_len(4210749) == 3 && spec_splitfull_len(4210750) == 3);
    /* no-zero: 64, 16447, 4210750 (+2^16-1 -> 4276285), ... */
    BOUND(spec_splitfullnozero_len, 64ULL, 1); BOUND(spec_splitfullnozero_len, 16447ULL, 2);
    BOUND(spec_splitfullnozero_len, 4276285ULL, 3); BOUND(spec_splitfullnozero_len, 20987965ULL, 4);
    CK(spec_splitfullnozero_len(UINT64_MAX) == 9);
    /* split-full-16: 16383, 4210686, 1077952509, 5372919804, 1100589580284, 281476054663164, 72057595115880444 */
    BOUND(spec_splitfull16_len, 16383ULL, 2); BOUND(spec_splitfull16_len, 4210686ULL, 3);
    BOUND(spec_splitfull16_len, 1077952509ULL, 4); BOUND(spec_splitfull16_len, 5372919804ULL, 5);
    BOUND(spec_splitfull16_len, 1100589580284ULL, 6); BOUND(spec_splitfull16_len, 281476054663164ULL, 7);
    BOUND(spec_splitfull16_len, 72057595115880444ULL, 8); CK(spec_splitfull16_len(UINT64_MAX) == 9);
    /* chained: 7 bits per byte, ninth byte full */
    BOUND(spec_chained_len, 127ULL, 1); BOUND(spec_chained_len, 16383ULL, 2); BOUND(spec_chained_len, 2097151ULL, 3);
    BOUND(spec_chained_len, (1ULL << 56) - 1, 8); CK(spec_chained_len(UINT64_MAX) == 9);
    /* a few byte patterns from the documentation */
    CK(spec_tagged_byte(241, 0) == 241 && spec_tagged_byte(241, 1) == 1);
    CK(spec_tagged_byte(2288, 0) == 249 && spec_tagged_byte(2288, 1) == 0 && spec_tagged_byte(2288, 2) == 0);
    CK(spec_tagged_byte(67824, 0) == 250 && spec_tagged_byte(67824, 1) == 1 && spec_tagged_byte(67824, 2) == 8 && spec_tagged_byte(67824, 3) == 0xf0);
    CK(spec_chained_byte(300, 0) == 0x82 && spec_chained_byte(300, 1) == 0x2c);
    CK(spec_chainedsimple_byte(300, 0) == 0xac && spec_chainedsimple_byte(300, 1) == 0x02);
    CK(spec_split_byte(16447, 0) == 0x81 && spec_split_byte(16447, 1) == 1);
    CK(spec_zigzag(0) == 0 && spec_zigzag(-1) == 1 && spec_zigzag(1) == 2 && spec_zigzag(INT64_MIN) == UINT64_MAX);
    CK(spec_unzigzag(spec_zigzag(-12345)) == -12345);
    printf("spec selftest %s\n", bad ? "FAILED" : "ok");
    return bad;
}
