/* "Replacement-grade" contracts of the scalar functions the array codecs call.
 * Same postconditions as the contracts in harness/scalar/*.c, but
 *   - preconditions use __CPROVER_w_ok/r_ok (checked at each call site; several
 *     calls may target the same caller buffer, which is_fresh would reject),
 *   - frames are exact (conditional targets per encoded length), so a caller's
 *     knowledge about neighbouring bytes survives the call.
 * Each is itself enforced by a job in jobs/callee.py (harness/callee.c), so a
 * caller proved against it does not rest on an assumption.
 * Include BEFORE the repo .c files. */
#pragma once
#include "cmacros.h"
#include "spec_scalar.h"
#include "varint.h"

#ifndef VERIF_NATIVE
#define TAG_FRAME(z, x)                                                               \
    __CPROVER_assigns((x) <= 240 : __CPROVER_object_upto((z), 1);                     \
                      (x) > 240 && (x) <= 2287 : __CPROVER_object_upto((z), 2);       \
                      (x) > 2287 && (x) <= 67823 : __CPROVER_object_upto((z), 3);     \
                      (x) > 67823 && (x) <= 16777215ULL : __CPROVER_object_upto((z), 4); \
                      (x) > 16777215ULL && (x) <= 4294967295ULL : __CPROVER_object_upto((z), 5); \
                      (x) > 4294967295ULL && (x) <= 1099511627775ULL : __CPROVER_object_upto((z), 6); \
                      (x) > 1099511627775ULL && (x) <= 281474976710655ULL : __CPROVER_object_upto((z), 7); \
                      (x) > 281474976710655ULL && (x) <= 72057594037927935ULL : __CPROVER_object_upto((z), 8); \
                      (x) > 72057594037927935ULL : __CPROVER_object_upto((z), 9))

/* the same exact frame as ONE target of symbolic size (ternary-free length expression): nine conditional targets per
 * call exhaust CBMC's memory in callers that carry loop contracts; selected with -DCALLEE_TAG_FRAME_SUM, enforced by
 * callee/varintTaggedPut64/sumframe */
#define M_TAGGED_LEN_SUM(x) (1u + ((x) > 240) + ((x) > 2287) + ((x) > 67823) + ((x) > 16777215ULL) + ((x) > 4294967295ULL) + \
                             ((x) > 1099511627775ULL) + ((x) > 281474976710655ULL) + ((x) > 72057594037927935ULL))
#ifdef CALLEE_TAG_FRAME_SUM
#undef TAG_FRAME
#define TAG_FRAME(z, x) __CPROVER_assigns(__CPROVER_object_upto((z), M_TAGGED_LEN_SUM(x)))
#endif
varintWidth varintTaggedPut64(uint8_t *z, uint64_t x)
    __CPROVER_requires(__CPROVER_w_ok(z, spec_tagged_len(x)))
    TAG_FRAME(z, x)
    __CPROVER_ensures(RET == spec_tagged_len(x))
    ENSURES_BYTES(z, RET, spec_tagged_byte, x);

varintWidth varintTaggedLen(uint64_t x)
    __CPROVER_requires(1)
    __CPROVER_assigns()
    __CPROVER_ensures(RET == spec_tagged_len(x));

/* decoder on arbitrary bytes: reads at most the announced length; the value is the
 * one the documented DECODE rule gives (spec_tagged_decode) */
static inline unsigned spec_tagged_announced(uint8_t b0) { return b0 <= 240 ? 1 : b0 <= 248 ? 2 : (unsigned)b0 - 246; }
static inline uint64_t spec_tagged_decode(const uint8_t *z) {
    uint8_t a0 = z[0];
    if (a0 <= 240) return a0;
    if (a0 <= 248) return 240 + 256 * (uint64_t)(a0 - 241) + z[1];
    if (a0 == 249) return 2288 + 256 * (uint64_t)z[1] + z[2];
    uint64_t v = 0;
    unsigned n = (unsigned)a0 - 247; /* payload bytes 3..8 */
    if (n >= 1) v = (v << 8) | z[1];
    if (n >= 2) v = (v << 8) | z[2];
    if (n >= 3) v = (v << 8) | z[3];
    if (n >= 4) v = (v << 8) | z[4];
    if (n >= 5) v = (v << 8) | z[5];
    if (n >= 6) v = (v << 8) | z[6];
    if (n >= 7) v = (v << 8) | z[7];
    if (n >= 8) v = (v << 8) | z[8];
    return v;
}
#ifndef VERIF_NO_TAGGEDGET64_CONTRACT   /* frame-grade jobs (arbitrary input) state their own, weaker contract */
varintWidth varintTaggedGet64(const uint8_t *z, uint64_t *pResult)
    __CPROVER_requires(__CPROVER_r_ok(z, 1) && __CPROVER_r_ok(z, spec_tagged_announced(z[0])))
    __CPROVER_requires(__CPROVER_w_ok(pResult, sizeof(uint64_t)))
    __CPROVER_assigns(*pResult)
    __CPROVER_ensures(RET == spec_tagged_announced(z[0]) && *pResult == spec_tagged_decode(z));
#endif

/* length-checked reader on arbitrary bytes: at most n (<= 9) bytes are readable */
varintWidth varintTaggedGet(const uint8_t *z, int32_t n, uint64_t *pResult)
    __CPROVER_requires(n >= 0 && n <= 9 && __CPROVER_r_ok(z, (size_t)n) && __CPROVER_w_ok(pResult, sizeof(uint64_t)))
    __CPROVER_assigns(*pResult)
    __CPROVER_ensures(RET == ((n < 1 || (unsigned)n < spec_tagged_announced(z[0])) ? 0 : spec_tagged_announced(z[0])))
    __CPROVER_ensures(RET == 0 || *pResult == spec_tagged_decode(z));

/* external fixed width put/get (any width 1..8; the value is truncated to width bytes) */
void varintExternalPutFixedWidth(void *p, uint64_t v, varintWidth encoding)
    __CPROVER_requires(encoding >= 1 && encoding <= 8 && __CPROVER_w_ok(p, encoding))
    /* one target of symbolic size: eight conditional targets exhaust CBMC's memory in callers with loop contracts */
    __CPROVER_assigns(__CPROVER_object_upto((uint8_t *)p, encoding))
    __CPROVER_ensures(((uint8_t *)p)[0] == spec_ext_byte(v, 0))
    __CPROVER_ensures(encoding < 2 || ((uint8_t *)p)[1] == spec_ext_byte(v, 1))
    __CPROVER_ensures(encoding < 3 || ((uint8_t *)p)[2] == spec_ext_byte(v, 2))
    __CPROVER_ensures(encoding < 4 || ((uint8_t *)p)[3] == spec_ext_byte(v, 3))
    __CPROVER_ensures(encoding < 5 || ((uint8_t *)p)[4] == spec_ext_byte(v, 4))
    __CPROVER_ensures(encoding < 6 || ((uint8_t *)p)[5] == spec_ext_byte(v, 5))
    __CPROVER_ensures(encoding < 7 || ((uint8_t *)p)[6] == spec_ext_byte(v, 6))
    __CPROVER_ensures(encoding < 8 || ((uint8_t *)p)[7] == spec_ext_byte(v, 7));

#define SPEC_LE_AT(p, w)                                                               \
    ((uint64_t)((const uint8_t *)(p))[0] | ((w) > 1 ? (uint64_t)((const uint8_t *)(p))[1] << 8 : 0) |      \
     ((w) > 2 ? (uint64_t)((const uint8_t *)(p))[2] << 16 : 0) | ((w) > 3 ? (uint64_t)((const uint8_t *)(p))[3] << 24 : 0) | \
     ((w) > 4 ? (uint64_t)((const uint8_t *)(p))[4] << 32 : 0) | ((w) > 5 ? (uint64_t)((const uint8_t *)(p))[5] << 40 : 0) | \
     ((w) > 6 ? (uint64_t)((const uint8_t *)(p))[6] << 48 : 0) | ((w) > 7 ? (uint64_t)((const uint8_t *)(p))[7] << 56 : 0))
uint64_t varintExternalGet(const void *p, varintWidth encoding)
    __CPROVER_requires(encoding >= 1 && encoding <= 8 && __CPROVER_r_ok(p, encoding))
    __CPROVER_assigns()
    __CPROVER_ensures(RET == SPEC_LE_AT(p, encoding));
#endif
