#!/usr/bin/env python3
# regenerates MANIFEST.json from the job registry + per-property texts in manifest_texts.json
import json, os, sys
HERE = os.path.dirname(os.path.abspath(__file__))
sys.path.insert(0, HERE)
from vlib import registry
texts = json.load(open(os.path.join(HERE, "manifest_texts.json")))
jobs = registry.all_jobs()
claimed = sorted({p for j in jobs for p in j.props})
props = [json.loads(l)["id"] for l in open(os.path.join(HERE, "properties.jsonl"))]
checks, na = [], []
for p in props:
    t = texts.get(p, {})
    if p in claimed and not t.get("not_applicable"):
        checks.append({
            "property_id": p,
            "quick_cmd": "python3 bin/check %s --tier quick" % p,
            "thorough_cmd": "python3 bin/check %s --tier thorough" % p,
            "evidence_file": "evidence/%s.json" % p,
            "replay_cmd_template": "python3 bin/check --replay {path}",
            "engine": "cbmc-contracts",
            "level_claimed": {"category": t.get("category", "proof"), "text": t.get("text", ""), "design_ref": t.get("design_ref", "DESIGN.md §5")},
            "level_note": t.get("note", ""),
            "technique": t.get("technique", "contract-based deductive verification: CBMC code contracts enforced per function (goto-instrument), discharged by SAT"),
        })
    else:
        na.append({"property_id": p, "reason": t.get("not_applicable") or "no check built yet in this round"})
m = {
    "version": 1,
    "setup_cmd": "python3 bin/check --setup",
    "hooks": {
        "guard": "VARINT_VERIF",
        "enable": "no source hooks are needed: contracts are attached as prototypes in /verif/harness/*.c that #include the real /repo/src files; loop contracts are woven into a scratch copy on every run",
        "baseline_off_cmd": "bash /verif/bin/baseline_off.sh",
        "source_commits": [],
        "add_only": True,
    },
    "engines": [{"name": "cbmc-contracts", "path": "bin/check", "serves_properties": [c["property_id"] for c in checks],
                 "kind_free_text": "CBMC 6.11 code contracts (requires/ensures/assigns/loop invariants) on the real sources, goto-instrument --dfcc / --enforce-contract, SAT back ends kissat/cadical"}],
    "checks": checks,
    "not_applicable": na,
    "notes": "exit 2 = undecided (tool trouble/timeout/vacuity guard), never reported as violation. See DESIGN.md.",
}
json.dump(m, open(os.path.join(HERE, "MANIFEST.json"), "w"), indent=1)
print("claimed:", [c["property_id"] for c in checks], "n/a:", [x["property_id"] for x in na])
