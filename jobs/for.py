from vlib.core import Job

JOBS = []
SC_GET = ["varintTaggedGet64", "varintTaggedLen", "varintExternalGet"]
SC_PUT = ["varintTaggedPut64", "varintExternalPutFixedWidth"]
WEAVE = [("varintFOR.c", "for.loops")]


def F(name, entry, enforce, mode, props, w=None, tier="quick", **kw):
    d = ["FOR_W=%d" % w] if w else []
    d += kw.pop("defs", [])
    # odd widths (5, 7) need 15-40 min per job on a loaded machine: generous limit, fewer concurrent jobs
    kw.setdefault("timeout", 7200 if mode == "M2" else 1800)
    if mode == "M2":
        kw.setdefault("mem_gb", 6)
    kw.setdefault("solvers", ["minisat"] if mode != "M1" else ["kissat", "minisat"])
    if mode == "M2":
        kw.setdefault("weave", WEAVE)
        # cone-of-influence slicing: the encoders' formulas shrink from >12M to ~5M variables (OOM -> minutes);
        # the decoders are better off without it (slicing itself needs more memory there)
        if "Encode" in name:
            kw.setdefault("flags", ["--slice-formula"])
    else:
        kw.setdefault("unwind", 10)
    JOBS.append(Job(name="for/" + name, props=props, src="for.c", entry=entry, mode=mode, enforce=enforce,
                    defines=d, functions=[enforce], tier=tier, **kw))

# sizing / analysis (width independent)
F("ComputeWidth", "H_forComputeWidth", "varintFORComputeWidth", "M1", ["C02", "C03", "C16"])
F("Size", "H_forSize", "varintFORSize", "M1", ["C03", "C16"])
F("Analyze", "H_forAnalyze", "varintFORAnalyze", "M2", ["C02", "C16", "C15"], replace=["varintFORComputeWidth", "varintFORSize"])
F("BatchAnalyze", "H_forBatchAnalyze", "varintFORBatchAnalyze", "M1", ["C02", "C16"], replace=["varintFORAnalyze"],
  note="loop-free dispatcher; callee varintFORAnalyze replaced by its (enforced) contract")
for w in range(1, 9):
    tier = "quick" if w in (1, 8) else "thorough"
    etier = "quick" if w == 1 else "thorough"     # encoder jobs: 2.5 min at width 1, 12 min at width 8
    F("Decode/w%d" % w, "H_forDecode", "varintFORDecode", "M2", ["C13", "C02"], w, tier, replace=SC_GET)
    F("DecodeBlock/w%d" % w, "H_forDecodeBlock", "varintFORDecodeBlock", "M2", ["C13", "C02"], w, tier, replace=SC_GET)
    F("BatchDecode/w%d" % w, "H_forBatchDecode", "varintFORBatchDecode", "M1", ["C13", "C02"], w, tier,
      replace=["varintFORDecode"], note="loop-free dispatcher over the enforced varintFORDecode contract")
    F("GetAt/w%d" % w, "H_forGetAt", "varintFORGetAt", "M1", ["C02"], w, tier)
    F("ReadMetadata/w%d" % w, "H_forReadMetadata", "varintFORReadMetadata", "M1", ["C16"], w, tier)
    F("GetMinValue/w%d" % w, "H_forGetMinValue", "varintFORGetMinValue", "M1", ["C16"], w, tier)
    F("GetCount/w%d" % w, "H_forGetCount", "varintFORGetCount", "M1", ["C16"], w, tier)
    F("GetOffsetWidth/w%d" % w, "H_forGetOffsetWidth", "varintFORGetOffsetWidth", "M1", ["C16"], w, tier)
    for variant, defs, props in (("reuse", ["FOR_META_REUSE=1", "FOR_NO_HDRBYTES=1"], ["C03", "C02", "C16"]),
                                 ("out", ["FOR_CASE_WIDTH=1"], ["C02", "C16", "C15"])):
        rep = SC_PUT + ["varintFORAnalyze"]
        F("Encode/%s/w%d" % (variant, w), "H_forEncode", "varintFOREncode", "M2", props, w, etier, defs=defs, replace=rep)
        if variant == "reuse":
            # header bytes (tagged min | width | tagged count): exact payload frame so that the header survives the loop
            # havoc; without the payload-content invariant and without slicing (each of those alone exhausts memory here)
            F("Encode/hdr/w%d" % w, "H_forEncode", "varintFOREncode", "M2", ["C02", "C16"], w, "thorough",
              defs=["FOR_META_REUSE=1", "FOR_NO_CONTENT=1"], replace=rep, flags=[])
        rep2 = SC_PUT + ["varintFORBatchAnalyze"]
        F("BatchEncode/%s/w%d" % (variant, w), "H_forBatchEncode", "varintFORBatchEncode", "M2", props, w,
          "thorough" if w != 1 else tier, defs=defs, replace=rep2)

# meta == NULL: CBMC 6.11 aborts (symex invariant violation, goto_symex_state rename) on the loop-contract pipeline when
# `meta` is constrained to NULL, and a bounded end-to-end composition (H_forEndToEnd, kept in the harness) did not finish
# within 15 minutes even for two elements; the NULL call form differs from the out-parameter form only by the skipped
# `*meta = localMeta` copy and is recorded as not covered.
