from vlib.core import Job

JOBS = []
SC_GET = ["varintTaggedGet64", "varintTaggedLen", "varintExternalGet"]
SC_PUT = ["varintTaggedPut64", "varintExternalPutFixedWidth"]
WEAVE = [("varintFOR.c", "for.loops")]


def F(name, entry, enforce, mode, props, w=None, tier="quick", **kw):
    d = ["FOR_W=%d" % w] if w else []
    d += kw.pop("defs", [])
    kw.setdefault("timeout", 1800)
    kw.setdefault("solvers", ["minisat"] if mode != "M1" else ["kissat", "minisat"])
    if mode == "M2":
        kw.setdefault("weave", WEAVE)
    else:
        kw.setdefault("unwind", 10)
    JOBS.append(Job(name="for/" + name, props=props, src="for.c", entry=entry, mode=mode, enforce=enforce,
                    defines=d, functions=[enforce], tier=tier, **kw))

# sizing / analysis (width independent)
F("ComputeWidth", "H_forComputeWidth", "varintFORComputeWidth", "M1", ["C02", "C03", "C16"])
F("Size", "H_forSize", "varintFORSize", "M1", ["C03", "C16"])
F("Analyze", "H_forAnalyze", "varintFORAnalyze", "M2", ["C02", "C16", "C15"], replace=["varintFORComputeWidth", "varintFORSize"])
F("BatchAnalyze", "H_forBatchAnalyze", "varintFORBatchAnalyze", "M1", ["C02", "C16"], replace=["varintFORAnalyze"],
  note="loop-free dispatcher; callee varintFORAnalyze replaced by its (enforced) contract")
for w in range(1, 9):
    tier = "quick" if w in (1, 8) else "thorough"
    F("Decode/w%d" % w, "H_forDecode", "varintFORDecode", "M2", ["C13", "C02"], w, tier, replace=SC_GET)
    F("DecodeBlock/w%d" % w, "H_forDecodeBlock", "varintFORDecodeBlock", "M2", ["C13", "C02"], w, tier, replace=SC_GET)
    F("BatchDecode/w%d" % w, "H_forBatchDecode", "varintFORBatchDecode", "M1", ["C13", "C02"], w, tier,
      replace=["varintFORDecode"], note="loop-free dispatcher over the enforced varintFORDecode contract")
    F("GetAt/w%d" % w, "H_forGetAt", "varintFORGetAt", "M1", ["C02"], w, tier)
    F("ReadMetadata/w%d" % w, "H_forReadMetadata", "varintFORReadMetadata", "M1", ["C16"], w, tier)
    F("GetMinValue/w%d" % w, "H_forGetMinValue", "varintFORGetMinValue", "M1", ["C16"], w, tier)
    F("GetCount/w%d" % w, "H_forGetCount", "varintFORGetCount", "M1", ["C16"], w, tier)
    F("GetOffsetWidth/w%d" % w, "H_forGetOffsetWidth", "varintFORGetOffsetWidth", "M1", ["C16"], w, tier)
    for variant, defs, props in (("reuse", ["FOR_META_REUSE=1"], ["C03", "C02", "C16"]),
                                 ("null", ["FOR_META_NULL=1"], ["C02"]),
                                 ("out", [], ["C02", "C16", "C15"])):
        rep = SC_PUT + ["varintFORAnalyze"]
        F("Encode/%s/w%d" % (variant, w), "H_forEncode", "varintFOREncode", "M2", props, w, tier, defs=defs, replace=rep)
        rep2 = SC_PUT + ["varintFORBatchAnalyze"]
        F("BatchEncode/%s/w%d" % (variant, w), "H_forBatchEncode", "varintFORBatchEncode", "M2", props, w,
          "thorough" if w != 1 else tier, defs=defs, replace=rep2)
