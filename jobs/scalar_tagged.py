from vlib.core import Job

def J(fn, entry=None, props=("C01", "C04"), **kw):
    e = entry or ("H_" + fn[6].lower() + fn[7:] if fn.startswith("varint") else "H_" + fn[2:])
    return Job(name="tagged/" + fn, props=list(props), src="scalar/tagged.c", entry=e, enforce=fn,
               functions=[fn], replay="scalar/tagged.c", **kw)

JOBS = [
    J("varintTaggedPut64"),
    J("varintTaggedPutVarint32"),
    J("varintTaggedPut64FixedWidth"),
    J("varintTaggedLen"),
    J("varintTaggedGetLen"),
    J("varintTaggedGet64"),
    J("varintTaggedGet64ReturnValue"),
    J("varintTaggedGetVarint32"),
    J("varintTaggedGet", props=("C01", "C14")),
    J("w_taggedLenQuick"),
    J("w_taggedGetLenQuick"),
    J("w_taggedPut64FixedWidthQuick"),
    J("w_taggedGet64Quick"),
    J("w_taggedRoundTrip", props=("C01",)),
]

JOBS += [
    J("w_taggedMono", props=("C04",)),
    J("w_taggedConstants", props=("C04",)),
    J("w_taggedOrder", props=("C05",), unwind=10),
    J("w_taggedOrderPair", props=("C05",), unwind=19, timeout=900),
]
