from math import gcd
from vlib.core import Job

SLOTS = {8: "uint8_t", 16: "uint16_t", 32: "uint32_t", 64: "uint64_t"}
JOBS = []


def cfg(name, bits, slot, tier, compact=False, promo=None, valt=None, maxel=None, sorted_too=False):
    d = ["PK_BITS=%d" % bits, "PK_SLOT=%s" % SLOTS[slot]]
    if compact:
        d.append("PK_COMPACT=1")
    if promo:
        d.append("PK_PROMO=" + promo)
    if valt:
        d.append("PK_VALT=" + valt)
    if maxel:
        d.append("PK_MAXEL=%d" % maxel)
        d.append("PK_MAXLEN=%d" % maxel)
    pfx = ("varintPackedCompact%d" if compact else "varintPacked%d") % bits
    for op, entry in (("Set", "H_pkSet"), ("Get", "H_pkGet"), ("SetIncr", "H_pkSetIncr"), ("SetHalf", "H_pkSetHalf")):
        JOBS.append(Job(name="packed/%s/%s" % (name, op), props=["C09"], src="packed.c", entry=entry,
                        enforce=pfx + op, functions=[pfx + op], defines=d, replay="packed.c", tier=tier,
                        timeout=1200, solvers=["kissat", "cadical"]))
    if sorted_too:
        JOBS.append(Job(name="packed/%s/sorted" % name, props=["C09"], src="packed.c", entry="H_pkSorted", mode="M3",
                        functions=[pfx + x for x in ("BinarySearch", "Member", "Insert", "InsertSorted", "Delete", "DeleteMember")],
                        defines=d + ["PK_SORTN=4"], unwind=10, object_bits=12, tier=tier, timeout=1800,
                        bounded="arrays of at most 4 elements (5 after insert), all values symbolic, loops unwound 10 times with unwinding assertions",
                        min_post=1))

# in-tree configurations: quick
cfg("12_u8_promo16_dim", 12, 8, "quick", promo="uint16_t", maxel=3700, sorted_too=True)      # varintDimension.c
cfg("12_u32_v16_promo32", 12, 32, "quick", promo="uint32_t", valt="uint16_t", sorted_too=True)  # varintPackedTest.c
cfg("12_compact_u8_promo64", 12, 8, "quick", compact=True, promo="uint64_t", valt="uint16_t")
cfg("13_u32", 13, 32, "quick", valt="uint32_t")
cfg("14_u32", 14, 32, "quick", valt="uint32_t")
cfg("3_u32", 3, 32, "quick", sorted_too=True)
# the generated grid: thorough
seen = {(12, 8), (12, 32), (13, 32), (14, 32), (3, 32)}
for bits in range(1, 33):
    for slot in (8, 16, 32, 64):
        if bits > slot + gcd(bits, slot):
            continue  # an element could span three slots: outside the property's domain
        if (bits, slot) in seen:
            continue
        # sorted operations also at the full value width (comparisons there cannot be done by subtraction in 32 bits)
        cfg("%d_u%d" % (bits, slot), bits, slot, "thorough", sorted_too=(bits == 32))
        if bits > slot:
            cfg("%d_compact_u%d" % (bits, slot), bits, slot, "thorough", compact=True)
