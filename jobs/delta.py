from vlib.core import Job

JOBS = []
def D(name, entry, enforce, props, mode="M1", **kw):
    kw.setdefault("unwind", 10 if mode != "M2" else None)
    kw.setdefault("functions", [enforce] if enforce else [])
    JOBS.append(Job(name="delta/" + name, props=props, src="delta.c", entry=entry, mode=mode, enforce=enforce, **kw))

D("ZigZag", "H_deltaZigZag", "w_deltaZigZag", ["C02", "C04"], functions=["varintDeltaZigZag", "varintDeltaZigZagDecode"])
D("Put", "H_deltaPut", "varintDeltaPut", ["C02", "C03", "C04"])
D("PutCoarse", "H_deltaPutCoarse", "varintDeltaPut", ["C03"], defines=["DELTA_PUT_COARSE=1"],
  note="same postconditions with the coarse 9-byte frame used at loop call sites")
D("Get", "H_deltaGet", "varintDeltaGet", ["C02"])
D("ElemRoundTrip", "H_deltaElemRoundTrip", "w_deltaElemRoundTrip", ["C02"], functions=["varintDeltaPut", "varintDeltaGet"])
D("MaxEncodedSize", "H_deltaMaxEncodedSize", "w_deltaMaxEncodedSize", ["C03"], functions=["varintDeltaMaxEncodedSize"])
D("Empty", "H_deltaEmpty", None, ["C02", "C03"], mode="M3", functions=["varintDeltaEncode", "varintDeltaDecode", "varintDeltaEncodeUnsigned", "varintDeltaDecodeUnsigned", "varintDeltaMaxEncodedSize"],
  note="count == 0 only: loop-free paths, complete for that case")
for fn, entry, extra in (("varintDeltaEncode", "H_deltaEncode", ["--no-signed-overflow-check"]), ("varintDeltaEncodeUnsigned", "H_deltaEncodeUnsigned", [])):
    D("Size/" + fn, entry, fn, ["C03"], mode="M2", weave=[("varintDelta.c", "delta.loops")], replace=["varintDeltaPut", "varintExternalPutFixedWidth"],
      defines=["DELTA_PUT_COARSE=1"], pre_unwindset=[fn + ".0:9"], flags=["--slice-formula"] + extra, solvers=["minisat", "cadical"], timeout=1800,
      note=("signed form: the property's precondition 'successive differences are representable' cannot be written as a quantifier-free "
            "requires clause; the job therefore runs without the signed-overflow check on values[i] - prev (assumption)") if extra else "")
for n, tier in ((2, "quick"), (3, "thorough")):
    for sfx, entry in (("Signed", "H_deltaRoundTripSigned"), ("Unsigned", "H_deltaRoundTripUnsigned")):
        D("RoundTrip%s/n%d" % (sfx, n), entry, None, ["C02", "C03"], mode="M3", defines=["DELTA_N=%d" % n], unwind=max(10, n + 2), timeout=1800, tier=tier,
          functions=["varintDeltaEncode" + ("" if sfx == "Signed" else "Unsigned"), "varintDeltaDecode" + ("" if sfx == "Signed" else "Unsigned")],
          solvers=["kissat", "cadical"],
          bounded="arrays of at most %d elements, all 64-bit values%s; loops unwound with unwinding assertions" % (n, " with representable successive differences" if sfx == "Signed" else ""))
