from vlib.core import Job

def D(fn, entry, **kw):
    kw.setdefault("unwind", 10)
    kw.setdefault("timeout", 900)
    kw.setdefault("mem_gb", 2)
    return Job(name="dimension/" + fn, props=["C10"], src="dimension.c", entry=entry, enforce=fn, functions=[fn],
               replay="dimension.c", **kw)

JOBS = [
    D("varintDimensionPack", "H_dimPack"),
    D("varintDimensionUnpack", "H_dimUnpack"),
    D("varintDimensionPairDimension", "H_dimPairDimension"),
    D("varintDimensionPairEncode", "H_dimPairEncode"),
    D("w_dimPairDepair", "H_dimPairDepair"),
    D("w_dimUnpackMacro", "H_dimUnpackMacro"),
    D("w_dimPairDecode", "H_dimPairDecode"),
    D("getEntryByteOffset", "H_dimEntryOffset", timeout=3000),
    D("varintDimensionPairEntryGetUnsigned", "H_dimGetUnsigned", replace=["getEntryByteOffset"]),
    D("varintDimensionPairEntrySetUnsigned", "H_dimSetUnsigned", replace=["getEntryByteOffset"]),
    D("varintDimensionPairEntrySetFloat", "H_dimSetFloat", replace=["getEntryByteOffset"], note="matrix object limited to 2048 bytes (memcpy on a symbolic-size object exhausts CBMC); cell offset arithmetic is covered without that limit by the Get/SetUnsigned jobs, which share getEntryByteOffset"),
    D("varintDimensionPairEntryGetFloat", "H_dimGetFloat", replace=["getEntryByteOffset"], note="matrix object limited to 2048 bytes (memcpy on a symbolic-size object exhausts CBMC); cell offset arithmetic is covered without that limit by the Get/SetUnsigned jobs, which share getEntryByteOffset"),
    D("varintDimensionPairEntrySetDouble", "H_dimSetDouble", replace=["getEntryByteOffset"], note="matrix object limited to 2048 bytes (memcpy on a symbolic-size object exhausts CBMC); cell offset arithmetic is covered without that limit by the Get/SetUnsigned jobs, which share getEntryByteOffset"),
    D("varintDimensionPairEntryGetDouble", "H_dimGetDouble", replace=["getEntryByteOffset"], note="matrix object limited to 2048 bytes (memcpy on a symbolic-size object exhausts CBMC); cell offset arithmetic is covered without that limit by the Get/SetUnsigned jobs, which share getEntryByteOffset"),
    D("varintDimensionPairEntryGetBit", "H_dimGetBit"),
    D("varintDimensionPairEntrySetBit", "H_dimSetBit"),
    D("varintDimensionPairEntryToggleBit", "H_dimToggleBit"),
]
