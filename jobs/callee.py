from vlib.core import Job

def K(fn, entry, props, sfx="", **kw):
    return Job(name="callee/" + fn + sfx, props=props, src="callee.c", entry=entry, enforce=fn, functions=[fn], unwind=10, **kw)

ALLP = ["C02", "C03", "C13", "C14", "C16"]
JOBS = [
    K("varintTaggedPut64", "H_cPut64", ALLP),
    K("varintTaggedPut64", "H_cPut64", ALLP, "/sumframe", defines=["CALLEE_TAG_FRAME_SUM=1"]),
    K("varintTaggedLen", "H_cLen", ALLP),
    K("varintTaggedGet64", "H_cGet64", ALLP),
    K("varintTaggedGet", "H_cTaggedGet", ["C14"]),
    K("varintExternalPutFixedWidth", "H_cExtPut", ALLP),
    K("varintExternalGet", "H_cExtGet", ALLP),
]
