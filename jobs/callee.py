from vlib.core import Job

def K(fn, entry, props):
    return Job(name="callee/" + fn, props=props, src="callee.c", entry=entry, enforce=fn, functions=[fn], unwind=10)

ALLP = ["C02", "C03", "C13", "C16"]
JOBS = [
    K("varintTaggedPut64", "H_cPut64", ALLP),
    K("varintTaggedLen", "H_cLen", ALLP),
    K("varintTaggedGet64", "H_cGet64", ALLP),
    K("varintExternalPutFixedWidth", "H_cExtPut", ALLP),
    K("varintExternalGet", "H_cExtGet", ALLP),
]
