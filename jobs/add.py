from vlib.core import Job

def A(fn, entry):
    return Job(name="add/" + fn, props=["C12"], src="scalar/add.c", entry=entry, enforce=fn, functions=[fn],
               replay="scalar/add.c", unwind=10, timeout=600)

JOBS = [
    A("varintTaggedAddNoGrow", "H_taggedAddNoGrow"),
    A("varintTaggedAddGrow", "H_taggedAddGrow"),
    A("varintExternalAddNoGrow", "H_extAddNoGrow"),
    A("varintExternalAddGrow", "H_extAddGrow"),
]
