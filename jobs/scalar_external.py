from vlib.core import Job

def J(fn, entry, props=("C01", "C04"), **kw):
    kw.setdefault("unwind", 10)
    return Job(name="external/" + fn, props=list(props), src="scalar/external.c", entry=entry, enforce=fn,
               functions=[fn], replay="scalar/external.c", **kw)

JOBS = [
    J("varintExternalPut", "H_extPut"),
    J("varintExternalPutFixedWidth", "H_extPutFixedWidth"),
    J("varintExternalSignedEncoding", "H_extSignedEncoding"),
    J("varintExternalGet", "H_extGet"),
    J("w_extUnsignedEncoding", "H_extUnsignedEncoding"),
    J("w_extLen", "H_extLen"),
    J("w_extPutFixedWidthQuick", "H_extPutFixedWidthQuick"),
    J("w_extPutFixedWidthQuickMedium", "H_extPutFixedWidthQuickMedium"),
    J("w_extGetQuick", "H_extGetQuick"),
    J("w_extGetQuickMedium", "H_extGetQuickMedium"),
    J("w_extGetQuickMediumReturnValue", "H_extGetQuickMediumReturnValue"),
    J("w_extRoundTrip", "H_extRoundTrip", props=("C01",)),
    J("w_signed24", "H_signed24", props=("C01",)),
    J("w_signed40", "H_signed40", props=("C01",)),
    J("w_signed48", "H_signed48", props=("C01",)),
    J("w_signed56", "H_signed56", props=("C01",)),
]


def B(fn, entry, props=("C01", "C04"), **kw):
    kw.setdefault("unwind", 10)
    return Job(name="externalbe/" + fn, props=list(props), src="scalar/externalbe.c", entry=entry, enforce=fn,
               functions=[fn], replay="scalar/externalbe.c", **kw)

JOBS += [
    B("varintExternalBigEndianPut", "H_extbePut"),
    B("varintExternalBigEndianPutFixedWidth", "H_extbePutFixedWidth"),
    B("varintExternalBigEndianGet", "H_extbeGet"),
    B("w_extbeUnsignedEncoding", "H_extbeUnsignedEncoding"),
    B("w_extbePutFixedWidthQuick", "H_extbePutFixedWidthQuick"),
    B("w_extbeGetQuick", "H_extbeGetQuick"),
    B("w_extbeRoundTrip", "H_extbeRoundTrip", props=("C01",)),
]

JOBS += [J("w_extMono", "H_extMono", props=("C04",))]
