from vlib.core import Job

JOBS = []
W = [("varintElias.c", "elias.loops")]
def E(name, entry, enforce, props, mode="M1", **kw):
    kw.setdefault("unwind", 66 if mode != "M2" else None)
    kw.setdefault("functions", [enforce] if enforce else [])
    kw.setdefault("timeout", 1800)
    kw.setdefault("object_bits", 12)
    JOBS.append(Job(name="elias/" + name, props=props, src="elias.c", entry=entry, mode=mode, enforce=enforce, **kw))

E("Bits", "H_eliasBits", "w_eliasBits", ["C04", "C03"], functions=["floorLog2", "varintEliasGammaBits", "varintEliasDeltaBits"], defines=["ELIAS_DELTA=0"])
E("MaxBytes", "H_eliasMaxBytes", "w_eliasMaxBytes", ["C03"], functions=["varintEliasGammaMaxBytes", "varintEliasDeltaMaxBytes"], defines=["ELIAS_DELTA=0"])
for d, nm in ((0, "Gamma"), (1, "Delta")):
    E("Code/" + nm, "H_eliasCode", "w_eliasCode", ["C02", "C04"], defines=["ELIAS_DELTA=%d" % d], solvers=["kissat", "cadical"], tier="thorough" ,
      functions=["varintElias%sEncode" % nm, "varintElias%sDecode" % nm, "varintBitWriterWrite", "varintBitWriterInit", "varintBitWriterBytes", "varintBitReaderRead", "varintBitReaderInit"],
      note="one code written at an arbitrary start bit 0..63 of a zeroed 32-byte buffer, all values >= 1; bit loops unwound 66 times with unwinding assertions (complete)")
# quick-tier case split of the same contract: the extreme bit-length classes (1, 2^31.., 2^62.., 2^63..) close in seconds because the
# prefix length is concrete; bounded (value classes), the full-domain jobs above remain the proof
for d, nm in ((0, "Gamma"), (1, "Delta")):
    for k in (0, 1, 31, 62, 63):
        E("Code/%s/class%d" % (nm, k), "H_eliasCode", "w_eliasCode", ["C02"], defines=["ELIAS_DELTA=%d" % d, "ELIAS_CLASS=%d" % k], solvers=["kissat", "cadical"],
          functions=["varintElias%sEncode" % nm, "varintElias%sDecode" % nm, "varintBitWriterWrite", "varintBitReaderRead"], bounded="values of one bit-length class [2^%d, 2^%d) only (start bit and ghost bit arbitrary)" % (k, k + 1), timeout=900,
          note="one code of a value in [2^%d, 2^%d) at an arbitrary start bit 0..63: bit pattern, bit count, decoder inverse; bit loops unwound 66 times with unwinding assertions" % (k, k + 1))
E("ReaderRead", "H_eliasReaderRead", "varintBitReaderRead", ["C14"], mode="M2", weave=W, defines=["ELIAS_DELTA=0", "ELIAS_ENFORCE=1"], solvers=["minisat", "cadical"])
E("GammaDecode", "H_eliasGammaDecode", "varintEliasGammaDecode", ["C14"], mode="M2", weave=W, defines=["ELIAS_DELTA=0", "ELIAS_ENFORCE=2"], replace=["varintBitReaderRead"],
  solvers=["minisat", "cadical"])
E("DeltaDecode", "H_eliasDeltaDecode", "varintEliasDeltaDecode", ["C14"], mode="M2", defines=["ELIAS_DELTA=0", "ELIAS_ENFORCE=3"],
  replace=["varintBitReaderRead", "varintEliasGammaDecode"], solvers=["minisat", "cadical"],
  note="loop-free once its two callees are replaced by their (enforced) contracts; non-DFCC contract enforcement")
for nm in ("Gamma", "Delta"):
    E("%sDecodeArray" % nm, "H_elias%sDecodeArray" % nm, "varintElias%sDecodeArray" % nm, ["C13", "C14"], mode="M2", weave=W, defines=["ELIAS_DELTA=0"],
      replace=["varintElias%sDecode" % nm], solvers=["minisat", "cadical"], flags=["--slice-formula"])
# (array-level bounded round trips were dropped: one element already needs 13 GB / 5 min; arrays are covered by the
#  element-level Code jobs plus the unbounded writer/reader chains below)

# writer chain: sizes and metadata, unbounded
M2 = dict(mode="M2", weave=W, solvers=["kissat", "cadical"])
E("WriterWrite", "H_eliasWriterWrite", "varintBitWriterWrite", ["C03"], defines=["ELIAS_DELTA=0", "ELIAS_ENFORCE=4"], **M2)
E("GammaEncode", "H_eliasGammaEncode", "varintEliasGammaEncode", ["C03", "C04"], defines=["ELIAS_DELTA=0", "ELIAS_ENFORCE=5"], replace=["varintBitWriterWrite"],
  weave_functions=["floorLog2"], ndebug=True, **M2)
E("DeltaEncode", "H_eliasDeltaEncode", "varintEliasDeltaEncode", ["C03", "C04"], defines=["ELIAS_DELTA=0", "ELIAS_ENFORCE=6"], replace=["varintBitWriterWrite", "varintEliasGammaEncode"],
  ndebug=True, mode="M1", unwind=66, solvers=["kissat", "cadical"],
  note="DFCC pipeline; floorLog2's 63-iteration loop unwound with unwinding assertions")
E("WriterInit", "H_eliasWriterInit", "varintBitWriterInit", ["C03"], defines=["ELIAS_DELTA=0"], unwind=70,
  note="memset model: enforced for capacities up to 64 bytes only (symbolic-size memset exhausts CBMC); the contract is used for any capacity")
for nm in ("Gamma", "Delta"):
    E("%sEncodeArray" % nm, "H_elias%sEncodeArray" % nm, "varintElias%sEncodeArray" % nm, ["C03", "C16"], defines=["ELIAS_DELTA=0"],
      replace=["varintElias%sEncode" % nm, "varintBitWriterInit"], ndebug=True, tier="thorough" if nm == "Gamma" else "quick",
      note="NDEBUG configuration (the pinned build): the element encoders' assert(value >= 1) is not an obligation, sizes are proved for arbitrary values", **M2)
