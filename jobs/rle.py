from vlib.core import Job

JOBS = []
W = [("varintRLE.c", "rle.loops")]
def R(name, entry, enforce, props, mode="M1", **kw):
    kw.setdefault("unwind", 10 if mode != "M2" else None)
    kw.setdefault("functions", [enforce] if enforce else [])
    if mode == "M2":
        kw.setdefault("weave", W)
        kw.setdefault("solvers", ["minisat", "cadical"])
        kw.setdefault("timeout", 1800)
        kw["flags"] = ["--slice-formula"] + kw.get("flags", [])
    JOBS.append(Job(name="rle/" + name, props=props, src="rle.c", entry=entry, mode=mode, enforce=enforce, **kw))

R("MaxSize", "H_rleMaxSize", "w_rleMaxSize", ["C03"], functions=["varintRLEMaxSize"])
R("DecodeRun", "H_rleDecodeRun", "varintRLEDecodeRun", ["C02"], replace=["varintTaggedGet64"])
R("GetCount", "H_rleGetCount", "varintRLEGetCount", ["C16"], replace=["varintTaggedGet64"])
R("Encode/size", "H_rleEncode", "varintRLEEncode", ["C03", "C16"], mode="M2", replace=["varintTaggedPut64"], defines=["CALLEE_TAG_FRAME_SUM=1"],
  tier="thorough", timeout=5400, solvers=["cadical", "minisat"])   # ~20 min on either solver
for n, tier in ((2, "quick"), (4, "thorough")):
    R("DecodeCapacity/n%d" % n, "H_rleDecodeCapacity", None, ["C13"], mode="M3", defines=["RLE_CAPN=%d" % n], unwind=max(10, n + 3), tier=tier,
      timeout=1800, solvers=["kissat", "cadical"], ndebug=True, flags=["--no-standard-checks"],
      functions=["varintRLEDecode"],
      bounded="maxCount <= %d; input bytes arbitrary (run lengths and values over all 64 bits); loops unwound with unwinding assertions" % n,
      note="frame-only: compiled with NDEBUG and run without the standard pointer checks, reads of the hostile stream may go anywhere; "
           "the header form is exercised with symbolic capacity on valid streams by rle/RoundTripHeader (a hostile stream of zero-length runs makes varintRLEDecodeWithHeader spin, recorded in DESIGN)")
R("GetRunCount/input", "H_rleGetRunCount", "varintRLEGetRunCount", ["C14"], mode="M1", weave=W, replace=["varintTaggedGet"], timeout=1800,
  note="DFCC pipeline: the non-DFCC loop-contract instrumentation of CBMC 6.11 mis-tracks the second of two adjacent locals declared in a loop body")
for n, tier in ((2, "quick"), (3, "thorough")):
    for nm, entry in (("RoundTrip", "H_rleRoundTrip"), ("RoundTripHeader", "H_rleRoundTripHeader")):
        R("%s/n%d" % (nm, n), entry, None, ["C02", "C03", "C13", "C16"], mode="M3", defines=["RLE_N=%d" % n], unwind=max(10, n + 2), tier=tier,
          timeout=1800, solvers=["kissat", "cadical"], object_bits=10,
          functions=["varintRLEEncode", "varintRLEDecode", "varintRLEAnalyze", "varintRLESize", "varintRLEGetAt", "varintRLEGetRunCount", "varintRLEIsBeneficial"]
          if nm == "RoundTrip" else ["varintRLEEncodeWithHeader", "varintRLEDecodeWithHeader", "varintRLEGetCount"],
          bounded="arrays of at most %d elements, all 64-bit values; loops unwound with unwinding assertions" % n)
R("Empty", "H_rleEmpty", None, ["C03", "C16"], mode="M3", functions=["varintRLEEncode", "varintRLESize", "varintRLEMaxSize"], note="count == 0: loop-free path, complete for that case")
