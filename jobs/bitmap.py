from vlib.core import Job

JOBS = []
def B(name, entry, props, **kw):
    kw.setdefault("timeout", 1800)
    kw.setdefault("unwind", 8)
    kw.setdefault("solvers", ["kissat", "cadical"])
    kw.setdefault("defines", [])
    if "BM_OP" not in " ".join(kw["defines"]):
        kw["defines"] = kw["defines"] + ["BM_OP=0"]
    if "BM_HLEN" not in " ".join(kw["defines"]):
        kw["defines"] = kw["defines"] + ["BM_HLEN=5"]
    JOBS.append(Job(name="bitmap/" + name, props=props, src="bitmap.c", entry=entry, mode="M3", **kw))

ARR = "well-formed ARRAY containers of at most 3 members (capacity 4), all 16-bit values; loops unwound 8 times with unwinding assertions"
# Array-container mutators, AddRange, set algebra, clone and serialise round trip do not close in CBMC 6.11: the
# memmove/memcpy models over partially filled heap arrays either exhaust 14 GB or are imprecise (a partial memcpy into
# a typed array loses the copied bytes: spurious counterexample, reproduced on varintBitmapClone).  The harness entries
# are kept in harness/bitmap.c; they are recorded as not established in DESIGN.md.
B("BitmapOps", "H_bmBitmapOps", ["C08"], functions=["varintBitmapAdd", "varintBitmapRemove", "varintBitmapContains", "bitmapSet_", "bitmapClear_", "bitmapContains_"],
  tier="thorough", timeout=5400,
  note="BITMAP containers with arbitrary 8192-byte contents and cardinality 4098..65535: loop-free paths, complete for those paths (no bound)")
B("Iterate", "H_bmIterate", ["C08"], bounded=ARR, functions=["varintBitmapToArray", "varintBitmapCreateIterator", "varintBitmapIteratorNext", "varintBitmapContains", "binarySearch_"])
for n in (0, 3, 5, 7, 9, 12):
    B("DecodeHostile/len%d" % n, "H_bmDecodeHostile", ["C14", "C08"], defines=["BM_HLEN=%d" % n], unwind=14, functions=["varintBitmapDecode"],
      bounded="input of exactly %d bytes, arbitrary contents (object of exactly that size)" % n)
B("RunsClear", "H_bmRunsClear", ["C08"], unwind=4, functions=["varintBitmapClear", "varintBitmapContains", "varintBitmapIsEmpty", "varintBitmapCardinality", "varintBitmapIteratorNext"],
  bounded="RUNS container with exactly one run (every start/length); loops unwound 4 times with unwinding assertions")
B("DecodeDense", "H_bmDecodeDense", ["C08"], unwind=4, tier="thorough", timeout=5400, mem_gb=10, functions=["varintBitmapDecode"],
  note="dense-container stream with arbitrary bits and any declared cardinality 0..65536: loop-free, complete for that container type")
B("EnsureCapacity", "H_bmEnsureCapacity", ["C08"], unwind=8, functions=["arrayEnsureCapacity_"], bounded=ARR + "; requested capacity <= 64")
B("OOM/EnsureCapacity", "H_bmEnsureCapacity", ["C18"], unwind=8, defines=["BM_OOM=1"], malloc_may_fail=True, flags=["--memory-leak-check"],
  functions=["arrayEnsureCapacity_"], bounded=ARR + "; requested capacity <= 64; the realloc may fail")
