from vlib.core import Job

def C(fn, entry, props=("C01", "C04"), **kw):
    kw.setdefault("unwind", 12)
    return Job(name="chained/" + fn, props=list(props), src="scalar/chained.c", entry=entry, enforce=fn,
               functions=[fn], replay="scalar/chained.c", **kw)

def S(fn, entry, props=("C01", "C04"), **kw):
    kw.setdefault("unwind", 12)
    return Job(name="chainedsimple/" + fn, props=list(props), src="scalar/chainedsimple.c", entry=entry, enforce=fn,
               functions=[fn], replay="scalar/chainedsimple.c", **kw)

JOBS = [
    C("varintChainedPutVarint", "H_chainedPutVarint"),
    C("varintChainedVarintLen", "H_chainedVarintLen"),
    C("varintChainedGetVarint", "H_chainedGetVarint"),
    C("varintChainedGetVarint32", "H_chainedGetVarint32"),
    C("w_chained_getVarint32", "H_chained_getVarint32"),
    C("w_chained_putVarint32", "H_chained_putVarint32"),
    C("w_chainedRoundTrip", "H_chainedRoundTrip", props=("C01",)),
    S("varintChainedSimpleEncode64", "H_csEncode64"),
    S("varintChainedSimpleEncode32", "H_csEncode32"),
    S("varintChainedSimpleLength", "H_csLength"),
    S("varintChainedSimpleDecode64", "H_csDecode64"),
    S("varintChainedSimpleDecode32", "H_csDecode32"),
    S("varintChainedSimpleDecode32Fallback", "H_csDecode32Fallback"),
    S("w_chainedSimpleRoundTrip", "H_csRoundTrip", props=("C01",)),
]

JOBS += [
    C("w_chainedMono", "H_chainedMono", props=("C04",)),
    S("w_csMono", "H_csMono", props=("C04",)),
]
