from vlib.core import Job

FUNCS = ["varintGroupSize", "varintGroupEncode", "varintGroupDecode", "varintGroupGetField", "varintGroupGetSize",
         "varintGroupGetFieldWidth", "varintGroupGetFieldCount"]
JOBS = []
# 16 and 64 fields (the API maximum) did not finish within an hour per solver: only the 4-field bound is registered
for n, tier in ((4, "quick"),):
    JOBS.append(Job(name="group/All/n%d" % n, props=["C02", "C03", "C13", "C16"], src="group.c", entry="H_groupAll", mode="M3",
                    functions=FUNCS, defines=["GROUP_N=%d" % n], unwind=max(n + 2, 10), tier=tier, timeout=3600,
                    solvers=["kissat", "minisat"],
                    note=("complete for the API: at most 64 fields, every loop unwound 66 times with unwinding assertions" if n == 64
                          else "BOUNDED to groups of at most %d fields (API maximum is 64)" % n),
                    bounded=None if n == 64 else "fieldCount <= %d" % n))
    if n == 64:
        pass
JOBS.append(Job(name="group/Reject", props=["C03"], src="group.c", entry="H_groupReject", mode="M3",
                functions=["varintGroupSize", "varintGroupEncode"], unwind=3))
