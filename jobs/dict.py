from vlib.core import Job

JOBS = []
def D(name, entry, enforce, props, mode="M3", **kw):
    kw.setdefault("unwind", 12)
    kw.setdefault("timeout", 2400)
    kw.setdefault("solvers", ["kissat", "cadical"])
    JOBS.append(Job(name="dict/" + name, props=props, src="dict.c", entry=entry, mode=mode, enforce=enforce, **kw))

QS = "qsort is a harness stub (exchange sort calling the real comparator): trusted"
D("Compare", "H_dictCompare", "w_dictCompare", ["C02"], mode="M1", functions=["compareUint64"])
D("DecodeInto/input", "H_dictDecodeInto", "varintDictDecodeInto", ["C14", "C13"], mode="M2", tier="thorough", weave=[("varintDict.c", "dict.loops")], unwind=None,
  replace=["varintTaggedGet", "varintExternalGet"], pre_unwindset=["varintDictDecodeInto.1:9"], solvers=["minisat", "cadical"], functions=["varintDictDecodeInto", "dictGetBounded"])
D("Decode/input", "H_dictDecode", "varintDictDecode", ["C14"], mode="M2", weave=[("varintDict.c", "dict.loops")], unwind=None,
  replace=["varintTaggedGet", "varintExternalGet"], pre_unwindset=["varintDictDecode.1:9"], solvers=["minisat", "cadical"], functions=["varintDictDecode", "dictGetBounded"])
# Array-level compositions (Encode -> Decode, both decoders) exhaust 14 GB in CBMC even for two values (symbolic-size
# heap objects, memcpy, nested sort): only the one-value object life cycle closes.  Recorded as not established.
D("Object/n1", "H_dictObject", None, ["C02", "C03"], defines=["DICT_N=1"], unwind=4,
  functions=["varintDictCreate", "varintDictBuild", "varintDictFind", "varintDictLookup", "varintDictEncodedSizeWithDict", "varintDictEncodeWithDict", "varintDictFree"],
  bounded="arrays of exactly 1 value; loops unwound 4 times with unwinding assertions", note=QS)
D("OOM/Create", "H_dictCreateOOM", None, ["C18"], malloc_may_fail=True, flags=["--memory-leak-check"], unwind=3,
  functions=["varintDictCreate", "varintDictFree"], note="loop-free: complete for this function pair (every subset of its two allocations fails)")
