from vlib.core import Job

JOBS = []
def F(name, entry, enforce, props, mode="M1", **kw):
    kw.setdefault("timeout", 2400)
    kw.setdefault("solvers", ["kissat", "cadical"])
    kw.setdefault("unwind", 12)
    JOBS.append(Job(name="float/" + name, props=props, src="float.c", entry=entry, mode=mode, enforce=enforce, **kw))

F("Full", "H_floatFull", "w_floatFull", ["C07"], functions=["varintFloatDecompose", "varintFloatCompose"])
F("Lossy", "H_floatLossy", "w_floatLossy", ["C07"], functions=["truncateMantissa", "expandMantissa", "varintFloatPrecisionMantissaBits"],
  note="the carry step between truncate and expand is restated in the wrapper (it sits inside varintFloatEncode's element loop); float/One/* run it in place")
F("AutoRule", "H_floatAutoRule", None, ["C07"], mode="M3", unwind=70, functions=["varintFloatEncodeAuto", "varintFloatPrecisionMaxRelativeError"],
  bounded="one zero element (the selection rule does not depend on the data); every requested error in (0,1)",
  note="ldexp is a harness stub returning the exact powers of two the library asks for (trusted)")
# One element through the real varintFloatEncode/Decode (H_floatOne, kept in the harness) exhausts 14 GB in CBMC for every
# precision x mode (bit-by-bit packing loops over heap arrays): the array plumbing is recorded as not established.
