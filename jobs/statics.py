from vlib.core import Job

JOBS = [Job(name="statics/scan", props=["C17", "C15"], src="-", entry="-", mode="SCAN",
            functions=["every object with static storage duration in src/*.c (tests excluded)"],
            note="native symbol-table scan (gcc -c, nm): supporting static fact, not a CBMC obligation")]
