from vlib.core import Job

JOBS = []
def A(name, entry, enforce, props, mode="M1", **kw):
    kw.setdefault("timeout", 2400)
    kw.setdefault("solvers", ["kissat", "cadical"])
    kw.setdefault("src", "adaptive.c")
    JOBS.append(Job(name="adaptive/" + name, props=props, entry=entry, mode=mode, enforce=enforce, **kw))

A("Select", "H_adSelect", "varintAdaptiveSelectEncoding", ["C06"], unwind=3, functions=["varintAdaptiveSelectEncoding"])
A("CheckSorted", "H_adCheckSorted", "varintAdaptiveCheckSorted", ["C06"], mode="M2", src="adaptive_sorted.c", weave=[("varintAdaptive.c", "adaptive.loops")], solvers=["minisat", "cadical"],
  functions=["varintAdaptiveCheckSorted"])
# forced-encoding compositions (H_adForced, kept in the harness) exhaust 14 GB in CBMC: not established
A("Analyze/n2", "H_adAnalyze", None, ["C06"], mode="M3", unwind=6, functions=["varintAdaptiveAnalyze", "varintAdaptiveCountUnique", "varintAdaptiveAvgDelta", "varintAdaptiveCheckSorted"],
  bounded="arrays of exactly 2 values (all 64-bit values); loops unwound 6 times with unwinding assertions", note="qsort is a harness stub (exchange sort calling the real comparator): trusted")
