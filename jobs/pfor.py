from vlib.core import Job

JOBS = []
QS = "qsort is a harness stub (exchange sort calling the real comparator): trusted"
def P(name, entry, enforce, props, mode="M3", **kw):
    kw.setdefault("timeout", 2400)
    kw.setdefault("solvers", ["kissat", "cadical"])
    JOBS.append(Job(name="pfor/" + name, props=props, src="pfor.c", entry=entry, mode=mode, enforce=enforce, **kw))

P("Compare", "H_pforCompare", "w_pforCompare", ["C02"], mode="M1", functions=["compare_uint64"], unwind=3)
P("Marker", "H_pforMarker", "w_pforMarker", ["C02"], mode="M1", functions=["varintPFORCalculateMarker"], unwind=3)
F_RT = ["varintPFORComputeThreshold", "varintPFORSize", "varintPFOREncode", "varintPFORReadMeta", "varintPFORDecode", "varintPFORGetAt"]
P("RoundTrip/n1", "H_pforRoundTrip", None, ["C02", "C03", "C16"], defines=["PFOR_N=1"], unwind=10, functions=F_RT,
  bounded="arrays of exactly 1 value (all 64-bit values, thresholds 90/95/99); loops unwound 10 times with unwinding assertions", note=QS)
for t in (90, 95, 99):
    P("RoundTrip/n2/t%d" % t, "H_pforRoundTrip", None, ["C02", "C03", "C16"], defines=["PFOR_N=2", "PFOR_T=%d" % t], unwind=10, functions=F_RT,
      tier="thorough",   # ~21 min each
      bounded="arrays of exactly 2 values (all 64-bit values), threshold %d; loops unwound 10 times with unwinding assertions" % t, note=QS)
P("OOM/RoundTrip/n1", "H_pforRoundTrip", None, ["C18"], defines=["PFOR_N=1", "PFOR_OOM=1"], unwind=10,
  malloc_may_fail=True, flags=["--memory-leak-check"], functions=["varintPFORComputeThreshold", "varintPFOREncode"],
  bounded="arrays of exactly 1 value; any subset of allocations fails", note=QS)
P("OOM/RoundTrip/n2/t90", "H_pforRoundTrip", None, ["C18"], defines=["PFOR_N=2", "PFOR_T=90", "PFOR_OOM=1"], unwind=10, tier="thorough",
  malloc_may_fail=True, flags=["--memory-leak-check"], functions=["varintPFORComputeThreshold", "varintPFOREncode"],
  bounded="arrays of exactly 2 values, threshold 90 (one exception possible); any subset of allocations fails", note=QS)
P("Size", "H_pforSize", "varintPFORSize", ["C03"], mode="M2", weave=[("varintPFOR.c", "pfor.loops")], replace=["varintTaggedLen"], solvers=["kissat", "cadical", "minisat"],
  functions=["varintPFORSize"])
