from vlib.core import Job

JOBS = []
for fam, rev in (("split", True), ("splitfull", True), ("splitfullnozero", True), ("splitfull16", False)):
    names = ["Put", "Length", "GetLen", "GetLenQuick", "Get", "RoundTrip"]
    if rev:
        names += ["RevPutReversed", "RevPutForward", "RevGet", "RevRoundTrip"]
    for n in names:
        props = ["C01"] if "RoundTrip" in n else ["C01", "C04"]
        JOBS.append(Job(name="%s/%s" % (fam, n), props=props, src="scalar/%s.c" % fam, entry="H_%s%s" % (fam, n),
                        enforce="w_%s%s" % (fam, n), functions=["w_%s%s" % (fam, n)], replay="scalar/%s.c" % fam,
                        unwind=10))

for fam in ("split", "splitfull", "splitfullnozero", "splitfull16"):
    JOBS.append(Job(name="%s/Mono" % fam, props=["C04"], src="scalar/%s.c" % fam, entry="H_%sMono" % fam,
                    enforce="w_%sMono" % fam, functions=["w_%sMono" % fam], replay="scalar/%s.c" % fam, unwind=10))
for fam in ("split", "splitfull", "splitfullnozero"):
    JOBS.append(Job(name="%s/Constants" % fam, props=["C04"], src="scalar/%s.c" % fam, entry="H_%sConstants" % fam,
                    enforce="w_%sConstants" % fam, functions=["w_%sConstants" % fam], replay="scalar/%s.c" % fam, unwind=10))
