from vlib.core import Job

JOBS = []
for t in ("uint64_t", "uint32_t", "uint16_t", "uint8_t"):
    for fn, entry in (("varintBitstreamSet", "H_bsSet"), ("varintBitstreamGet", "H_bsGet"), ("w_bsRoundTrip", "H_bsRoundTrip")):
        JOBS.append(Job(name="bitstream/%s/%s" % (t, fn), props=["C11"], src="bitstream.c", entry=entry, enforce=fn,
                        functions=[fn], defines=["VB_T=" + t], replay="bitstream.c", timeout=600))
JOBS.append(Job(name="bitstream/w_bsSigned", props=["C11"], src="bitstream.c", entry="H_bsSigned", enforce="w_bsSigned",
                functions=["_varintBitstreamPrepareSigned", "_varintBitstreamRestoreSigned"], replay="bitstream.c"))
