from vlib.core import Job

JOBS = []
def B(name, entry, enforce, props, mode="M3", **kw):
    kw.setdefault("timeout", 2400)
    kw.setdefault("solvers", ["kissat", "cadical"])
    JOBS.append(Job(name="bp128/" + name, props=props, src="bp128.c", entry=entry, mode=mode, enforce=enforce, **kw))

B("Bits", "H_bpBits", "w_bpBits", ["C02"], mode="M1", unwind=66, functions=["varintBP128BitsNeeded32", "varintBP128BitsNeeded64"])
B("MaxBytes", "H_bpMaxBytes", "w_bpMaxBytes", ["C03"], mode="M1", unwind=3, functions=["varintBP128MaxBytes"])
B("GetCount", "H_bpGetCount", "varintBP128GetCount", ["C14", "C16"], mode="M1", unwind=10, functions=["varintBP128GetCount"])
KINDS = ["Encode32/Decode32", "DeltaEncode32/DeltaDecode32", "Encode64/Decode64", "DeltaEncode64/DeltaDecode64"]
# Only the 32-bit delta pair closes as a bounded composition (2 values below 2^3, ~2 min); the other three pairs end in
# unwinding-assertion failures or exhaust memory in CBMC and are recorded as not established.
for kind in (1,):
    for n, bits, tier in ((2, 3, "quick"),):
        B("RoundTrip/k%d/n%d" % (kind, n), "H_bpRoundTrip", None, ["C02", "C03", "C13", "C16"], defines=["BP_KIND=%d" % kind, "BP_N=%d" % n, "BP_BITS=%d" % bits],
          unwind=8 * n + 3, tier=tier,
          functions=["varintBP128" + f for f in KINDS[kind].split("/")] + ["varintBP128MaxBytes"],
          bounded="arrays of exactly %d values below 2^%d (partial-block path only: full 128-value blocks and wide values are not reached); loops unwound with unwinding assertions" % (n, bits))
B("MaxBitWidth64", "H_bpMaxBitWidth64", "varintBP128MaxBitWidth64", ["C02"], mode="M2", weave=[("varintBP128.c", "bp128.loops")],
  pre_unwindset=["varintBP128BitsNeeded64.0:66"], solvers=["minisat", "cadical"], functions=["varintBP128MaxBitWidth64", "varintBP128BitsNeeded64"])
B("MaxBitWidth32", "H_bpMaxBitWidth32", "varintBP128MaxBitWidth32", ["C02"], mode="M2", weave=[("varintBP128.c", "bp128.loops")],
  pre_unwindset=["varintBP128BitsNeeded32.0:34"], solvers=["minisat", "cadical"], functions=["varintBP128MaxBitWidth32", "varintBP128BitsNeeded32"],
  note="scalar path (the NEON/AVX2/SSE branches are not compiled in this build)")
