/* KNOWN FINDING C18: the bitmap set operations ignore the result of varintBitmapAdd.  When growing the result's array
 * fails, varintBitmapOr still returns a (non-NULL) result that lacks the member: success together with wrong output.
 * (varintBitmapAdd reports "already present" and "out of memory" with the same false, so the callers cannot tell.)
 * exit 1 = reproduces, exit 0 = does not. */
#include <stdlib.h>
#include <stdio.h>
static int fail_realloc = 0;
static void *frealloc(void *p, size_t n) { if (fail_realloc) return NULL; return realloc(p, n); }
#define realloc frealloc
#include "varintBitmap.c"
#undef realloc
int main(void) {
    varintBitmap *a = varintBitmapCreate(), *b = varintBitmapCreate();
    for (uint16_t i = 1; i <= 16; i++) varintBitmapAdd(a, i);      /* array container exactly full (capacity 16) */
    varintBitmapAdd(b, 100);
    fail_realloc = 1;
    varintBitmap *r = varintBitmapOr(a, b);                          /* clone of a, then Add(100) must grow: fails */
    fail_realloc = 0;
    int bad = r != NULL && !varintBitmapContains(r, 100);
    if (r) varintBitmapFree(r);
    varintBitmapFree(a); varintBitmapFree(b);
    return bad;
}
