/* KNOWN FINDING C07: COMMON_EXPONENT mode stores each exponent as a one-byte offset from the minimum exponent of the
 * array; a spread of more than 255 binades within one array is truncated and the large values decode wrongly.
 * exit 1 = the defect reproduces on this tree, exit 0 = it does not (fixed). */
#include "varintFloat.h"
#include <stdio.h>
#include <math.h>
int main(void) {
    double v[2] = {1.0, ldexp(1.0, 300)}, out[2] = {0, 0};
    uint8_t buf[256];
    varintFloatEncode(buf, v, 2, VARINT_FLOAT_PRECISION_FULL, VARINT_FLOAT_MODE_COMMON_EXPONENT);
    varintFloatDecode(buf, 2, out);
    return !(out[0] == v[0] && out[1] == v[1]);
}
