# Replay of verifier counterexamples on the real code, natively (gcc + ASan/UBSan).
import json, os, re, shutil, subprocess, tempfile
from . import core

VERIF = core.VERIF


def _sanitize(lhs):
    return re.sub(r"[^A-Za-z0-9_]", "_", re.sub(r"(\d+)[ul]*\]", r"\1]", lhs)).strip("_")


def _cval(v):
    if isinstance(v, bool):
        return "1" if v else "0"
    if isinstance(v, int):
        if v < 0:
            return "(%dLL)" % v if v > -(1 << 63) else "(-9223372036854775807LL-1)"
        return "%dULL" % v
    if isinstance(v, list):
        return "{" + ",".join(_cval(x) for x in v) + "}"
    if isinstance(v, dict):
        return "{" + ",".join(".%s=%s" % (k, _cval(x)) for k, x in v.items() if _cval(x) is not None) + "}"
    return None


def inputs_header(inputs):
    lines = ["/* generated from the cbmc counterexample trace */"]
    for k, v in inputs.items():
        c = _cval(v)
        if c is None:
            continue
        lines.append("#define IN_%s %s" % (_sanitize(k), c))
    return "\n".join(lines) + "\n"


def write_replay(prop, job, res, failed):
    d = os.path.join(VERIF, "replays", prop)
    os.makedirs(d, exist_ok=True)
    path = os.path.join(d, job.name.replace("/", "_") + ".json")
    doc = {
        "property": prop,
        "job": job.name,
        "harness": job.src,
        "entry": job.entry,
        "function_under_contract": job.enforce,
        "mode": job.mode,
        "checker_cmd": res.get("checker_cmd"),
        "solver": res.get("solver"),
        "failed_obligations": [
            {k: f[k] for k in ("obligation", "class", "description", "status", "location", "inputs")}
            for f in failed],
        "replay_driver": job.replay,
        "defines": job.defines,
        "ndebug": job.ndebug,
        "verifier_output": "FAILED obligations listed above come from `%s`" % res.get("checker_cmd"),
    }
    json.dump(doc, open(path, "w"), indent=1, default=str)
    return path


def native_run(driver, inputs, defines=(), ndebug=False, entry=None):
    """compile the native driver against /repo/src with the traced inputs.
    returns (reproduced: True|False|None, output)"""
    d = tempfile.mkdtemp(prefix="verif-replay-")
    try:
        open(os.path.join(d, "replay_inputs.h"), "w").write(inputs_header(inputs))
        exe = os.path.join(d, "rp")
        cmd = ["gcc", "-std=gnu11", "-g", "-O0", "-fsanitize=address,undefined", "-fno-sanitize-recover=undefined",
               "-I" + d, "-I" + os.path.join(VERIF, "contracts"), "-I" + os.path.join(VERIF, "replay"),
               "-I" + os.path.join(VERIF, "harness"), "-I" + core.SRC, "-DVERIF_NATIVE=1", "-w"] + \
              (["-DRP_ENTRY=" + entry] if entry else []) + \
              ["-D" + x for x in defines] + (["-DNDEBUG"] if ndebug else []) + \
              [os.path.join(VERIF, "harness", driver) if os.path.exists(os.path.join(VERIF, "harness", driver))
               else os.path.join(VERIF, "replay", driver), "-o", exe, "-lm"]
        r = subprocess.run(cmd, capture_output=True, text=True)
        if r.returncode != 0:
            return None, "replay driver does not compile with these inputs:\n" + r.stderr[-3000:]
        try:
            r = subprocess.run([exe], capture_output=True, text=True, timeout=120)
        except subprocess.TimeoutExpired:
            return None, "replay timed out"
        out = (r.stdout + r.stderr)[-4000:]
        return (r.returncode != 0), out
    finally:
        shutil.rmtree(d, ignore_errors=True)


def try_replay(job, path):
    doc = json.load(open(path))
    if not job.replay:
        doc["replay_result"] = "no native driver for this job; verifier output only"
        json.dump(doc, open(path, "w"), indent=1, default=str)
        return None
    verdict = None
    for f in doc["failed_obligations"]:
        rep, out = native_run(job.replay, f.get("inputs") or {}, job.defines, job.ndebug, job.entry)
        f["native_replay"] = {"reproduced": rep, "output": out}
        if rep:
            verdict = True
            break
        if verdict is None:
            verdict = rep
    doc["replay_result"] = "reproduced on the real code" if verdict else "not reproduced natively"
    json.dump(doc, open(path, "w"), indent=1, default=str)
    return verdict


def replay_file(path):
    doc = json.load(open(path))
    print("property", doc["property"], "job", doc["job"])
    for f in doc["failed_obligations"]:
        print(" obligation:", f["obligation"], "-", f["description"])
        print("  inputs:", json.dumps(f.get("inputs"), default=str)[:800])
    if doc.get("replay_driver"):
        anyrep = False
        for f in doc["failed_obligations"]:
            rep, out = native_run(doc["replay_driver"], f.get("inputs") or {}, doc.get("defines", []), doc.get("ndebug", False), doc.get("entry"))
            print("  native replay:", "REPRODUCED" if rep else ("not reproduced" if rep is False else "n/a"))
            print("  " + out.replace("\n", "\n  ")[-1500:])
            anyrep = anyrep or bool(rep)
        return 1 if anyrep else 0
    print(" no native driver; re-run the checker_cmd to see the verifier's trace:")
    print(" ", doc.get("checker_cmd"))
    return 1


def run_witness(k):
    """compile and run the native witness of a recorded finding against the current tree.
    True = reproduces (exit 1), False = does not (exit 0), None = could not build"""
    d = tempfile.mkdtemp(prefix="verif-witness-")
    try:
        exe = os.path.join(d, "w")
        cmd = ["gcc", "-std=gnu11", "-O0", "-w", "-I" + core.SRC, os.path.join(VERIF, k["witness_program"])] + \
              [os.path.join(core.SRC, f) for f in k.get("witness_sources", [])] + ["-lm", "-o", exe]
        r = subprocess.run(cmd, capture_output=True, text=True)
        if r.returncode != 0:
            return None
        try:
            r = subprocess.run([exe], capture_output=True, text=True, timeout=120)
        except subprocess.TimeoutExpired:
            return None
        return r.returncode == 1
    finally:
        shutil.rmtree(d, ignore_errors=True)
