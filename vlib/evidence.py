# evidence/<Cxx>.json writer (schema: /root/.vp/EVIDENCE.schema.json, level "proof")
import glob, json, os, re
from . import core

VERIF = core.VERIF

STANDING = [
    "CBMC 6.11 symbolic execution, goto-instrument contract instrumentation and the SAT/SMT back ends are trusted",
    "CBMC's models of memcpy/memmove/memset/memcmp/malloc/calloc/realloc/free and its x86-64 LP64 little-endian data model (big-endian host branches are dead code here, unverified)",
    "proofs are about ISO C semantics of the sources, not about the -O3 binary; gcc/libc assumed correct on UB-free programs",
    "SIMD (NEON/AVX2) branches are not compiled in the pinned build and are not verified",
    "ghost-index generalisation (a fresh unconstrained index stands for 'for all') is a meta-level step",
]


def scan_assumptions():
    out = []
    pats = [("__CPROVER_assume", "explicit assume"), ]
    for root in ("contracts", "harness"):
        for p in glob.glob(os.path.join(VERIF, root, "**", "*.[ch]"), recursive=True):
            try:
                txt = open(p).read()
            except Exception:
                continue
            for i, line in enumerate(txt.split("\n"), 1):
                if "__CPROVER_assume" in line and not line.strip().startswith(("//", "*", "/*")):
                    out.append("%s:%d %s" % (os.path.relpath(p, VERIF), i, line.strip()[:140]))
    return out


def write(prop, tier, seed, jobs, results, wall, nviol, knownhits):
    byname = {j.name: j for j in jobs}
    # a job with a stated bound (mode M3, or a contract job whose harness restricts the input domain) is never counted as proof
    proof = [r for r in results if byname[r["job"]].mode in ("M1", "M2") and not byname[r["job"]].bounded]
    bounded = [r for r in results if byname[r["job"]].mode == "M3" or byname[r["job"]].bounded]
    obligations = sum(r.get("obligations", 0) for r in proof)
    discharged = sum(r.get("discharged", 0) for r in proof)
    enforced = set()
    for r in results:
        if r.get("enforce"):
            enforced.add(r["enforce"])
    replaced_unenforced = set()
    for j in jobs:
        for g in j.replace:
            replaced_unenforced.add(g)
    # a replaced callee counts as checked only if some job of the registry enforces it
    from . import registry
    all_enforced = {j.enforce for j in registry.all_jobs() if j.enforce}
    assumed_contracts = sorted(g for g in replaced_unenforced if g not in all_enforced)
    functions = sorted({f for j in jobs for f in j.functions} | {j.enforce for j in jobs if j.enforce})
    samples = []
    for r in results[:6]:
        for s in r.get("samples", [])[:2]:
            samples.append({"job": r["job"], "obligation": s})
    if not samples:
        samples = [{"job": r["job"], "outcome": r["outcome"]} for r in results[:3]]
    assumptions = list(STANDING)
    for g in assumed_contracts:
        assumptions.append("contract of %s is used at call sites (--replace-call-with-contract) but not enforced by any job: assumed" % g)
    for a in scan_assumptions():
        assumptions.append("assume in verification text: " + a)
    for r in bounded:
        assumptions.append("BOUNDED (not proof): job %s explored only within: %s" % (r["job"], r.get("bounded")))
    for j in jobs:
        if j.note:
            assumptions.append("job %s: %s" % (j.name, j.note))
    for k, f in knownhits:
        assumptions.append("known finding (carved out, still reported): " + k.get("text", ""))
    und = [r for r in results if r["outcome"] == "UNDECIDED"]
    doc = {
        "property_id": prop,
        "tier": tier,
        "seed": seed,
        "level": "proof",
        "coverage": {
            "obligations": obligations,
            "discharged": discharged,
            "checker_cmd": (results[0].get("checker_cmd") or "cbmc") if results else "cbmc",
            "trusted_base": ["cbmc 6.11.0", "goto-cc", "goto-instrument (code contracts / dfcc)", "kissat", "cadical",
                             "contracts and spec functions in /verif/contracts (reviewed by hand against the property text)"],
            "samples": samples,
            "functions_under_contract": functions,
            "jobs": [{k: r.get(k) for k in ("job", "mode", "enforce", "replace", "functions", "outcome", "obligations",
                                            "discharged", "solver", "solver_s", "max_rss_mb", "wall_s", "classes", "bounded", "reason")}
                     for r in results],
            "bounded_obligations": sum(r.get("obligations", 0) for r in bounded),
            "bounded_jobs": [{"job": r["job"], "bound": r.get("bounded"), "outcome": r["outcome"]} for r in bounded],
            "undecided_jobs": [r["job"] for r in und],
            "solver_s_total": round(sum(r.get("solver_s", 0) or 0 for r in results), 1),
            "explanation": "each job builds a translation unit that #includes the real /repo/src file, attaches the contract "
                           "as a prototype, instruments it with goto-instrument and lets cbmc discharge every generated obligation; "
                           "M1/M2 jobs are unbounded proofs (loops closed by loop contracts or by width-bounded unwinding with "
                           "unwinding assertions), M3 jobs are bounded stand-ins and are not counted in obligations/discharged",
        },
        "assumptions": assumptions,
        "wall_s": round(wall, 2),
        "violations": nviol,
    }
    if obligations == 0:
        # no contract obligation in this run (bounded stand-ins only): the record is honest about that - level "other",
        # the bounded obligations are reported under bounded_obligations and never as proved ones
        doc["level"] = "other"
        del doc["coverage"]["obligations"]
        del doc["coverage"]["discharged"]
        doc["coverage"]["explanation"] = ("this run holds bounded stand-ins only (CBMC bounded model checking of the real functions, "
                                          "all inputs symbolic within the stated bounds, unwinding assertions on): %d obligations checked within "
                                          "the bounds listed under bounded_jobs, none of them counted as proved; see assumptions" %
                                          doc["coverage"]["bounded_obligations"])
    os.makedirs(os.path.join(VERIF, "evidence"), exist_ok=True)
    json.dump(doc, open(os.path.join(VERIF, "evidence", prop + ".json"), "w"), indent=1, default=str)
