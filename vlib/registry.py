# collects Job lists from /verif/jobs/*.py (each module exposes JOBS)
import glob, importlib.util, os
from . import core

_cache = None


def all_jobs():
    global _cache
    if _cache is not None:
        return _cache
    out = []
    for p in sorted(glob.glob(os.path.join(core.VERIF, "jobs", "*.py"))):
        spec = importlib.util.spec_from_file_location("jobs_" + os.path.basename(p)[:-3], p)
        m = importlib.util.module_from_spec(spec)
        spec.loader.exec_module(m)
        out.extend(m.JOBS)
    # C17 / C15 ride on the frame and functional obligations of the pure codecs' contracts: every quick job that enforces
    # a contract (assigns clause + postconditions, statics nondeterministic) of a function documented as pure also serves
    # them; the static-storage scan is the supporting fact
    PURE = ("tagged/", "external/", "externalbe/", "chained/", "chainedsimple/", "split/", "splitfull/", "splitfullnozero/",
            "splitfull16/", "packed/", "bitstream/", "delta/", "callee/", "elias/", "rle/DecodeRun", "rle/GetCount", "add/")
    for j in out:
        if j.enforce and j.tier == "quick" and j.mode in ("M1", "M2") and j.name.startswith(PURE):
            for p in ("C17", "C15"):
                if p not in j.props:
                    j.props.append(p)
    names = [j.name for j in out]
    assert len(names) == len(set(names)), "duplicate job names"
    _cache = out
    return out
