# collects Job lists from /verif/jobs/*.py (each module exposes JOBS)
import glob, importlib.util, os
from . import core

_cache = None


def all_jobs():
    global _cache
    if _cache is not None:
        return _cache
    out = []
    for p in sorted(glob.glob(os.path.join(core.VERIF, "jobs", "*.py"))):
        spec = importlib.util.spec_from_file_location("jobs_" + os.path.basename(p)[:-3], p)
        m = importlib.util.module_from_spec(spec)
        spec.loader.exec_module(m)
        out.extend(m.JOBS)
    names = [j.name for j in out]
    assert len(names) == len(set(names)), "duplicate job names"
    _cache = out
    return out
