# Weaves __CPROVER loop-contract clauses into a scratch copy of a /repo source
# file.  Only text is inserted (between the ')' of a loop header and its body);
# cutting the insertions out again must give back the original bytes, checked on
# every run.  Anchors are (function name, loop ordinal inside the function,
# must-match regex on the loop header); any mismatch aborts the job (UNDECIDED).
#
# loops file format:
#   @function <name>
#   @loop <ordinal> <regex that must match the text of the loop header>
#   <clause lines ...>
#   @end
import os, re
from .core import Undecided


def _mask(src):
    """same-length copy of src with comments, strings and char literals blanked"""
    out = list(src)
    i, n = 0, len(src)
    while i < n:
        c = src[i]
        if src.startswith("/*", i):
            j = src.find("*/", i + 2)
            j = n if j < 0 else j + 2
            for k in range(i, j):
                if out[k] != "\n":
                    out[k] = " "
            i = j
        elif src.startswith("//", i):
            j = src.find("\n", i)
            j = n if j < 0 else j
            for k in range(i, j):
                out[k] = " "
            i = j
        elif c == '"' or c == "'":
            q = c
            j = i + 1
            while j < n and src[j] != q:
                if src[j] == "\\":
                    j += 1
                j += 1
            for k in range(i + 1, min(j, n)):
                if out[k] != "\n":
                    out[k] = " "
            i = j + 1
        else:
            i += 1
    return "".join(out)


def _match(m, i, open_c, close_c):
    depth = 0
    n = len(m)
    while i < n:
        if m[i] == open_c:
            depth += 1
        elif m[i] == close_c:
            depth -= 1
            if depth == 0:
                return i
        i += 1
    return -1


def find_function_body(masked, name):
    for mm in re.finditer(r"\b%s\s*\(" % re.escape(name), masked):
        p = masked.index("(", mm.start())
        e = _match(masked, p, "(", ")")
        if e < 0:
            continue
        k = e + 1
        while k < len(masked) and masked[k] in " \t\r\n":
            k += 1
        if k < len(masked) and masked[k] == "{":
            end = _match(masked, k, "{", "}")
            # must be at file scope: brace depth 0 before the match
            depth = masked[:mm.start()].count("{") - masked[:mm.start()].count("}")
            if depth == 0 and end > 0:
                return k, end
    return None


def loops_in(masked, b0, b1):
    """[(keyword_pos, header_open, header_close)] for for/while loops (not do-while tails)"""
    res = []
    for mm in re.finditer(r"\b(for|while)\b", masked[b0:b1]):
        kpos = b0 + mm.start()
        p = kpos + len(mm.group(1))
        while masked[p] in " \t\r\n":
            p += 1
        if masked[p] != "(":
            continue
        e = _match(masked, p, "(", ")")
        k = e + 1
        while masked[k] in " \t\r\n":
            k += 1
        if mm.group(1) == "while" and masked[k] == ";":
            # tail of a do { } while (...);  -- or an empty-bodied while; either way not woven
            # check it is a do-while tail: preceding non-space char is '}'
            q = kpos - 1
            while masked[q] in " \t\r\n":
                q -= 1
            if masked[q] == "}":
                continue
        res.append((kpos, p, e))
    return res


def parse_loops_file(path):
    specs = []  # (function, ordinal, regex, clauses)
    fn = None
    cur = None
    for line in open(path):
        s = line.rstrip("\n")
        if s.startswith("#") and cur is None:
            continue
        if s.startswith("@function"):
            fn = s.split()[1]
        elif s.startswith("@loop"):
            parts = s.split(None, 2)
            # ordinal "*": the unique loop of the function whose header matches the regex (functions whose inactive
            # preprocessor branches hold further loops)
            cur = [fn, -1 if parts[1] == "*" else int(parts[1]), parts[2] if len(parts) > 2 else ".", []]
        elif s.startswith("@end"):
            specs.append(tuple(cur))
            cur = None
        elif cur is not None:
            cur[3].append(s)
    return specs


def weave_text(src, specs, fname="<src>"):
    masked = _mask(src)
    inserts = []  # (pos, text)
    anchors = []
    for fn, ordinal, rx, clauses in specs:
        body = find_function_body(masked, fn)
        if body is None:
            raise Undecided("weave: function %s not found in %s" % (fn, fname))
        loops = loops_in(masked, body[0], body[1])
        if ordinal < 0:
            hits = [k for k, (kp, _ho, hc_) in enumerate(loops) if re.search(rx, re.sub(r"\s+", " ", src[kp:hc_ + 1]))]
            if len(hits) != 1:
                raise Undecided("weave: %d loops of %s match /%s/, wanted exactly one" % (len(hits), fn, rx))
            ordinal = hits[0]
        if ordinal >= len(loops):
            raise Undecided("weave: %s has %d loops, wanted ordinal %d" % (fn, len(loops), ordinal))
        kpos, ho, hc = loops[ordinal]
        header = re.sub(r"\s+", " ", src[kpos:hc + 1])
        if not re.search(rx, header):
            raise Undecided("weave: loop %d of %s is `%s`, anchor /%s/ does not match (code was restructured)" % (ordinal, fn, header, rx))
        inserts.append((hc + 1, "\n" + "\n".join(clauses) + "\n"))
        anchors.append((fn, kpos))
    inserts.sort()
    out, last = [], 0
    spans = []
    for pos, text in inserts:
        out.append(src[last:pos])
        start = sum(len(x) for x in out)
        out.append(text)
        spans.append((start, start + len(text)))
        last = pos
    out.append(src[last:])
    woven = "".join(out)
    # strip check
    back, last = [], 0
    for a, b in spans:
        back.append(woven[last:a])
        last = b
    back.append(woven[last:])
    if "".join(back) != src:
        raise Undecided("weave: strip check failed for " + fname)
    return woven


def weave_file(src_path, loops_path, out_path, only=None):
    src = open(src_path).read()
    specs = parse_loops_file(loops_path)
    if only is not None:
        specs = [sp for sp in specs if sp[0] in only]
        if not specs:
            raise Undecided("weave: no loop clauses for %s in %s" % (sorted(only), loops_path))
    woven = weave_text(src, specs, os.path.basename(src_path))
    os.makedirs(os.path.dirname(out_path), exist_ok=True)
    open(out_path, "w").write(woven)
    # [(function, line number in the woven file of each loop keyword that carries clauses)]
    return weave_lines(src, specs)


def weave_text_anchors(src, specs):
    masked = _mask(src)
    res = []
    for fn, ordinal, rx, clauses in specs:
        body = find_function_body(masked, fn)
        loops = loops_in(masked, body[0], body[1])
        if ordinal < 0:
            ordinal = [k for k, (kp, _ho, hc_) in enumerate(loops) if re.search(rx, re.sub(r"\s+", " ", src[kp:hc_ + 1]))][0]
        res.append((fn, loops[ordinal][0], loops[ordinal][2], len(clauses) + 2))
    return res


def weave_lines(src, specs):
    """[(function, line number of the loop keyword in the WOVEN file)]"""
    anchors = sorted(weave_text_anchors(src, specs), key=lambda a: a[1])
    out, shift = [], 0
    for fn, kpos, hc, nlines in anchors:
        line = src.count("\n", 0, kpos) + 1 + shift
        out.append((fn, line))
        shift += nlines - 1  # inserted text is "\n" + clauses + "\n": len(clauses) + 1 newlines
    return out
