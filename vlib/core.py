# Core of the contract-verification driver: job description, the goto-cc /
# goto-instrument / cbmc pipelines (M1 = DFCC, M2 = loop contracts without
# DFCC, M3 = bounded stand-in), result parsing, vacuity guards.
import json, os, re, resource, shutil, subprocess, tempfile, time
from dataclasses import dataclass, field

VERIF = os.path.dirname(os.path.dirname(os.path.abspath(__file__)))
REPO = os.environ.get("VERIF_REPO", "/repo")
SRC = os.path.join(REPO, "src")

SOLVERS = {
    "kissat": ["--external-sat-solver", "kissat"],
    "cadical": ["--sat-solver", "cadical"],
    "minisat": [],
    "cvc5": ["--cvc5"],
    "z3": ["--z3"],
}

MEM_LIMIT = int(os.environ.get("VERIF_MEM_GB", "14")) * (1 << 30)
MEM_BUDGET_GB = int(os.environ.get("VERIF_MEM_BUDGET_GB", "0")) or None


class _MemBudget:
    """jobs declare their expected peak memory; the sum of running jobs stays below the budget"""
    def __init__(self):
        import threading
        self.cv = threading.Condition()
        self.used = 0
        self.total = None

    def _tot(self):
        if self.total is None:
            if MEM_BUDGET_GB:
                self.total = MEM_BUDGET_GB
            else:
                try:
                    kb = int(re.search(r"MemAvailable:\s+(\d+)", open("/proc/meminfo").read()).group(1))
                    self.total = max(8, int(kb / (1 << 20) * 0.8))
                except Exception:
                    self.total = 16
        return self.total

    def acquire(self, n):
        n = min(n, self._tot())
        with self.cv:
            while self.used + n > self._tot():
                self.cv.wait()
            self.used += n
        return n

    def release(self, n):
        with self.cv:
            self.used -= n
            self.cv.notify_all()


BUDGET = _MemBudget()


@dataclass
class Job:
    name: str
    props: list                 # property ids this job serves
    src: str                    # harness file, relative to /verif/harness
    entry: str                  # harness entry function
    mode: str = "M1"            # M1 | M2 | M3
    enforce: str = None         # function under --enforce-contract
    replace: list = field(default_factory=list)
    unwind: int = None          # global --unwind (width-bounded loops only)
    unwindset: list = field(default_factory=list)
    pre_unwindset: list = field(default_factory=list)  # M2 pass B
    defines: list = field(default_factory=list)
    flags: list = field(default_factory=list)
    solvers: list = field(default_factory=lambda: ["kissat", "cadical"])
    timeout: int = 300
    tier: str = "quick"
    bounded: str = None         # text of the bound for M3 jobs
    weave: list = field(default_factory=list)  # [(repo file, loops file)]
    replay: str = None          # native replay driver (relative to /verif/replay)
    functions: list = field(default_factory=list)  # real functions covered
    note: str = ""
    ndebug: bool = False
    malloc_may_fail: bool = False
    nondet_static: bool = True
    object_bits: int = None
    expect_fail: list = field(default_factory=list)  # known-finding obligations (regex)
    min_post: int = 1           # minimal number of contract obligations (vacuity guard)
    weave_functions: list = field(default_factory=list)  # further functions whose loops get their clauses
    portfolio: bool = False     # run all solvers concurrently, first verdict wins (default: one after the other)
    mem_gb: int = 4             # expected peak memory of the cbmc run: the scheduler keeps the sum below VERIF_MEM_BUDGET_GB


def _limits():
    resource.setrlimit(resource.RLIMIT_AS, (MEM_LIMIT, MEM_LIMIT))
    os.setsid()


def _mk_limits(mem_bytes):
    def f():
        resource.setrlimit(resource.RLIMIT_AS, (mem_bytes, mem_bytes))
        os.setsid()
    return f


def run(cmd, timeout, cwd, env=None, stdout_path=None, mem_gb=None):
    t0 = time.time()
    pre = _mk_limits(max(MEM_LIMIT, int(mem_gb * 2.5) << 30)) if mem_gb else _limits
    out = open(stdout_path, "wb") if stdout_path else subprocess.PIPE
    try:
        p = subprocess.Popen(cmd, cwd=cwd, env=env, stdout=out,
                             stderr=subprocess.STDOUT,
                             preexec_fn=pre)
        try:
            so, se = p.communicate(timeout=timeout)
            rc = p.returncode
        except subprocess.TimeoutExpired:
            try:
                os.killpg(p.pid, 9)
            except Exception:
                pass
            so, se = p.communicate()
            rc = "timeout"
    finally:
        if stdout_path:
            out.close()
    txt = (so or b"").decode("utf8", "replace") + (se or b"").decode("utf8", "replace")
    return rc, txt, time.time() - t0


class Undecided(Exception):
    pass


CONTRACT_CLASSES = ("postcondition", "precondition", "assigns", "loop_invariant",
                    "loop_decreases", "loop_assigns", "unwind", "assertion")


LEDGER_CLASSES = ("postcondition", "loop_invariant", "loop_decreases", "precondition")


def classify(prop_name, desc):
    if "canary" in desc:
        return "canary"
    d = desc.lower()
    if "unwinding assertion" in d:
        return "unwind"
    if "postcondition" in prop_name or d.startswith("check ensures"):
        return "postcondition"
    if "precondition" in prop_name or d.startswith("check requires"):
        return "precondition"
    if "loop invariant" in d:
        return "loop_invariant"
    if "decreases" in d or "loop_decreases" in prop_name:
        return "loop_decreases"
    if "is assignable" in d or "assigns" in prop_name:
        return "assigns"
    if ".assertion." in prop_name:
        return "assertion"
    if "memory-leak" in prop_name or "memory_leak" in prop_name:
        return "memory_leak"
    return "safety"


def build_job(job, wd, log):
    """goto-cc + goto-instrument passes; returns path of the final goto binary."""
    src = os.path.join(VERIF, "harness", job.src)
    incs = ["-I" + os.path.join(VERIF, "contracts"), "-I" + os.path.join(VERIF, "harness")]
    # woven copies shadow repo files
    woven_lines = set()
    if job.weave:
        from . import weave
        wdir = os.path.join(wd, "woven")
        os.makedirs(wdir, exist_ok=True)
        for repo_file, loops_file in job.weave:
            for fn_, ln_ in weave.weave_file(os.path.join(SRC, repo_file),
                                             os.path.join(VERIF, "contracts", loops_file),
                                             os.path.join(wdir, repo_file),
                                             only=set([job.enforce] + list(job.weave_functions)) if job.enforce else None):
                woven_lines.add((fn_, ln_))
        incs.append("-I" + wdir)
    incs.append("-I" + SRC)
    defs = ["-DVARINT_VERIF_CBMC=1"] + ["-D" + d for d in job.defines]
    if job.ndebug:
        defs += ["-DNDEBUG", "-D__builtin_unreachable()=__CPROVER_assert(0,\"unreachable reached\")"]
    a = os.path.join(wd, "a.gb")
    cmd = ["goto-cc", "-std=c11"] + incs + defs + ["--function", job.entry, src, "-o", a]
    rc, txt, _ = run(cmd, 300, wd)
    log.write("$ " + " ".join(cmd) + "\n" + txt + "\n")
    if rc != 0:
        raise Undecided("goto-cc failed: " + txt[-2000:])
    cur = a
    step = 0

    def gi(args):
        nonlocal cur, step
        step += 1
        nxt = os.path.join(wd, "s%d.gb" % step)
        cmd = ["goto-instrument"] + args + [cur, nxt]
        rc, txt, _ = run(cmd, 600, wd)
        log.write("$ " + " ".join(cmd) + "\n" + txt[-6000:] + "\n")
        if rc != 0:
            raise Undecided("goto-instrument failed (%s): %s" % (" ".join(args), txt[-1500:]))
        cur = nxt
        return txt

    if job.mode == "M1":
        if job.pre_unwindset:
            gi(["--unwindset", ",".join(job.pre_unwindset), "--unwinding-assertions"])
        args = ["--dfcc", job.entry]
        if job.enforce:
            args += ["--enforce-contract", job.enforce]
        for g in job.replace:
            args += ["--replace-call-with-contract", g]
        if job.weave:
            args += ["--apply-loop-contracts"]
        gi(args)
    elif job.mode == "M2":
        if job.replace:
            args = []
            for g in job.replace:
                args += ["--replace-call-with-contract", g]
            gi(args)
        # loops of the woven functions that carry no clauses are the do { } while (0) of
        # statement macros: unwound once, with an unwinding assertion (a real loop would fail it)
        pre = list(job.pre_unwindset)
        explicit = {x.split(":")[0] for x in pre}
        rc_, txt_, _ = run(["goto-instrument", "--show-loops", cur], 300, wd)
        fns = {f for f, _l in woven_lines} | ({job.enforce} if job.enforce else set())
        for m in re.finditer(r"Loop ([\w$.]+):\s*\n\s*file (\S+) line (\d+) function (\w+)", txt_):
            lname, _f, line, fn_ = m.group(1), m.group(2), int(m.group(3)), m.group(4)
            if fn_ in fns and fn_ not in job.replace and (fn_, line) not in woven_lines and lname not in explicit:
                pre.append(lname + ":1")
        log.write("pre-unwind: " + ",".join(pre) + "\n")
        if pre:
            gi(["--unwindset", ",".join(pre), "--unwinding-assertions"])
        if job.weave:
            gi(["--apply-loop-contracts"])
        if job.enforce:
            gi(["--enforce-contract", job.enforce])
    elif job.mode == "M3":
        if job.replace:
            args = []
            for g in job.replace:
                args += ["--replace-call-with-contract", g]
            gi(args)
        if job.enforce:
            # the non-DFCC contract instrumentation wants loop-free code: unwind first
            u = []
            if job.unwind is not None:
                u += ["--unwind", str(job.unwind)]
            if job.unwindset:
                u += ["--unwindset", ",".join(job.unwindset)]
            if u:
                gi(u + ["--unwinding-assertions"])
            gi(["--enforce-contract", job.enforce])
    else:
        raise Undecided("unknown mode " + job.mode)
    return cur


def cbmc_cmd(job, gb, solver):
    cmd = ["cbmc", gb]
    if job.mode != "M1":
        cmd += ["--function", job.entry]
    if job.unwind is not None:
        cmd += ["--unwind", str(job.unwind)]
    if job.unwindset:
        cmd += ["--unwindset", ",".join(job.unwindset)]
    if job.unwind is not None or job.unwindset:
        cmd += ["--unwinding-assertions"]
    if not job.malloc_may_fail:
        cmd += ["--no-malloc-may-fail"]
    else:
        cmd += ["--malloc-may-fail", "--malloc-fail-null"]
    if job.nondet_static and job.mode != "M1":
        cmd += ["--nondet-static"]
    if job.object_bits or job.mode == "M3":
        cmd += ["--object-bits", str(job.object_bits or 12)]
    cmd += job.flags
    cmd += SOLVERS[solver]
    return cmd


def parse_cbmc(path):
    try:
        data = json.load(open(path))
    except Exception as e:
        raw = open(path, errors="replace").read()
        m = re.search(r"Condition: .*\n(Reason: .*)?", raw)
        raise Undecided("cbmc aborted (%s): %s" % (e, (m.group(0) if m else raw[-600:]).strip()[:700]))
    results, msgs, status = None, [], None
    for e in data:
        if "result" in e:
            results = e["result"]
        elif "cProverStatus" in e:
            status = e["cProverStatus"]
        elif "messageText" in e:
            msgs.append(e["messageText"])
    return results, msgs, status


def race(job, gb, wd):
    """start cbmc once per solver, concurrently; the first run that ends with a verdict wins, the rest are killed.
    returns (solver, rc, seconds) or None when none produced a verdict within the timeout"""
    t0 = time.time()
    procs = {}
    got = BUDGET.acquire(job.mem_gb * len(job.solvers))
    try:
        for solver in job.solvers:
            d = os.path.join(wd, "tmp." + solver)
            os.makedirs(d, exist_ok=True)
            env = dict(os.environ, TMPDIR=d)
            outp = os.path.join(wd, "cbmc.%s.log" % solver)
            rssf = os.path.join(wd, "rss.%s" % solver)
            cmd = ["/usr/bin/time", "-f", "%M", "-o", rssf] + cbmc_cmd(job, gb, solver)
            procs[solver] = (subprocess.Popen(cmd, cwd=wd, env=env, stdout=open(outp, "wb"), stderr=subprocess.DEVNULL,
                                              preexec_fn=_mk_limits(max(MEM_LIMIT, int(job.mem_gb * 2.5) << 30))), outp)
        winner = None
        while procs and time.time() - t0 < job.timeout and winner is None:
            time.sleep(0.3)
            for solver, (p, outp) in list(procs.items()):
                if p.poll() is None:
                    continue
                del procs[solver]
                if "VERIFICATION" in open(outp, errors="replace").read():
                    winner = (solver, p.returncode, time.time() - t0)
                    break
        return winner
    finally:
        for solver, (p, outp) in procs.items():
            try:
                os.killpg(p.pid, 9)
            except Exception:
                pass
            try:
                p.wait(timeout=5)
            except Exception:
                pass
        BUDGET.release(got)


def parse_text(path):
    raw = open(path, errors="replace").read()
    results = []
    for m in re.finditer(r"^\[([^\]]+)\] (?:line (\d+) )?(.*): (SUCCESS|FAILURE|UNKNOWN|ERROR)\s*$", raw, re.M):
        results.append({"property": m.group(1), "description": m.group(3), "status": m.group(4),
                        "sourceLocation": {"line": m.group(2)}})
    msgs = [l for l in raw.split("\n") if l.startswith(("warning", "Out of memory", "Solver ran out", "too many addressed"))]
    if "too many addressed objects" in raw:
        return None, msgs + ["too many addressed objects: raise Job.object_bits"], None
    if "Out of memory" in raw or "ran out of memory" in raw or "std::bad_alloc" in raw:
        msgs.append("Out of memory")
    if not results or "VERIFICATION" not in raw:
        if any("memory" in m for m in msgs):
            return None, msgs, None
        mm = re.search(r"Condition: .*\n(Reason: .*)?", raw)
        return None, msgs + ["cbmc gave no verdict: " + ((mm.group(0) if mm else raw[-500:]).strip()[:700])], None
    return results, msgs, None


# "ignoring infinity" (infinite-size is_fresh bookkeeping array of the non-DFCC contract
# instrumentation) replaces an expression by an unconstrained value: an over-approximation,
# so a PROVED verdict stays sound; it is recorded in the job result, not treated as an error.
BAD_LOG = [r"ignoring forall", r"ignoring exists", r"Parse Error"]


def trace_inputs(trace, entry):
    """last value of every assignment made in the harness entry function"""
    ins = {}
    for s in trace or []:
        if s.get("stepType") != "assignment" or s.get("hidden"):
            continue
        loc = s.get("sourceLocation", {})
        if loc.get("function") != entry:
            continue
        lhs = s.get("lhs", "")
        if lhs.startswith("__") or "$" in lhs or "return_value" in lhs:
            continue
        v = s.get("value", {})
        ins[lhs] = _flatten(v)
    return ins


def _flatten(v):
    if v.get("name") == "integer" and "binary" in v:
        n = int(v["binary"], 2)
        if v.get("type", "").startswith(("signed", "int", "long", "short", "char")) and \
                not v.get("type", "").startswith("unsigned") and v["binary"][0] == "1" and \
                "unsigned" not in v.get("type", ""):
            n -= 1 << len(v["binary"])
        return n
    if v.get("name") == "boolean" and "data" in v:
        return 1 if str(v["data"]).lower() == "true" else 0
    if "data" in v:
        return v["data"]
    if "elements" in v:
        return [_flatten(e["value"]) for e in v["elements"]]
    if "members" in v:
        return {m["name"]: _flatten(m["value"]) for m in v["members"]}
    return None


def run_scan(job, tmp_root):
    """supporting static fact for C15/C17: no object with static storage duration is writable.
    Every library source (tests excluded) is compiled natively and its symbol table inspected: symbols in .data/.bss
    (nm classes b B d D, plus common C) are mutable statics - file-scope or function-local."""
    t0 = time.time()
    wd = tempfile.mkdtemp(prefix="scan.", dir=tmp_root)
    res = {"job": job.name, "mode": "SCAN", "enforce": None, "replace": [], "functions": job.functions, "bounded": None,
           "tier": job.tier, "entry": job.entry, "src": job.src, "checker_cmd": "gcc -c <src>.c && nm <src>.o"}
    try:
        import glob as _g
        # library sources: the *Test.c files and the varintCompare.c benchmark (a program with its own main) are not part of it
        files = sorted(f for f in _g.glob(os.path.join(SRC, "*.c")) if not f.endswith("Test.c") and
                       not re.search(r"^\s*int(32_t)?\s+main\s*\(", open(f, errors="replace").read(), re.M))
        if len(files) < 10:
            raise Undecided("only %d library sources found under %s" % (len(files), SRC))
        failed, nsym = [], 0
        for f in files:
            o = os.path.join(wd, os.path.basename(f) + ".o")
            rc, txt, _ = run(["gcc", "-std=gnu11", "-O0", "-c", "-I" + SRC, f, "-o", o], 300, wd)
            if rc != 0:
                raise Undecided("gcc failed on %s: %s" % (f, txt[-400:]))
            rc, txt, _ = run(["nm", o], 60, wd)
            if rc != 0:
                raise Undecided("nm failed on %s" % o)
            for line in txt.split("\n"):
                parts = line.split()
                if len(parts) >= 2:
                    nsym += 1
                    cls, name = parts[-2], parts[-1]
                    if cls in ("b", "B", "d", "D", "C", "s", "S", "g", "G"):
                        failed.append({"obligation": "static-storage:%s:%s" % (os.path.basename(f), name), "class": "assigns",
                                       "description": "writable object with static storage duration `%s` (nm class %s) in %s" % (name, cls, os.path.basename(f)),
                                       "status": "FAILURE", "location": {"file": f}, "inputs": {}})
        res["obligations"] = len(files)
        res["classes"] = {"assertion": len(files)}
        res["samples"] = ["%d library sources, %d symbols inspected: none writable with static storage duration" % (len(files), nsym)]
        res["solver"] = "nm"
        res["solver_s"] = round(time.time() - t0, 2)
        res["wall_s"] = res["solver_s"]
        if failed:
            res["outcome"] = "FAILED"
            res["failed"] = failed
            res["discharged"] = len(files) - len({f_["location"]["file"] for f_ in failed})
        else:
            res["outcome"] = "PROVED"
            res["discharged"] = len(files)
        return res
    except Undecided as u:
        res["outcome"] = "UNDECIDED"
        res["reason"] = str(u)
        res["wall_s"] = round(time.time() - t0, 2)
        return res
    finally:
        shutil.rmtree(wd, ignore_errors=True)


def run_job(job, tmp_root):
    """Returns dict(outcome=PROVED|FAILED|UNDECIDED, ...)"""
    if job.mode == "SCAN":
        return run_scan(job, tmp_root)
    t0 = time.time()
    wd = tempfile.mkdtemp(prefix=job.name.replace("/", "_") + ".", dir=tmp_root)
    res = {"job": job.name, "mode": job.mode, "enforce": job.enforce, "replace": job.replace,
           "functions": job.functions, "bounded": job.bounded, "tier": job.tier,
           "entry": job.entry, "src": job.src}
    logp = os.path.join(wd, "build.log")
    try:
        with open(logp, "w") as log:
            gb = build_job(job, wd, log)
        buildlog = open(logp).read()
        last = None
        order = list(job.solvers)
        raced = None
        if job.portfolio and len(order) > 1:
            raced = race(job, gb, wd)
            order = [raced[0]] if raced else order[:1]
        for solver in order:
            env = dict(os.environ)
            env["TMPDIR"] = wd
            outp = os.path.join(wd, "cbmc.%s.log" % solver)
            cmd = cbmc_cmd(job, gb, solver)
            rssf = os.path.join(wd, "rss.%s" % solver)
            tcmd = (["/usr/bin/time", "-f", "%M", "-o", rssf] if os.path.exists("/usr/bin/time") else []) + cmd
            if raced:
                rc, secs = raced[1], raced[2]
            else:
                got = BUDGET.acquire(job.mem_gb)
                try:
                    rc, txt, secs = run(tcmd, job.timeout, wd, env=env, stdout_path=outp, mem_gb=job.mem_gb)
                finally:
                    BUDGET.release(got)
            try:
                res["max_rss_mb"] = int(open(rssf).read().strip().split("\n")[-1]) // 1024
            except Exception:
                pass
            res["checker_cmd"] = " ".join(cmd)
            if rc == "timeout":
                last = "timeout after %ds on %s" % (job.timeout, solver)
                continue
            # plain-text UI: cbmc --json-ui aborts on some runs (warnings that carry ireps, counterexample building);
            # the text report lists the same obligations and verdicts
            results, msgs, status = parse_text(outp)
            alltxt = "\n".join(msgs) + buildlog
            if any("Out of memory" in m or "out of memory" in m for m in msgs):
                last = "cbmc ran out of memory on %s" % solver
                continue
            if results is None:
                last = "no result from cbmc on %s (rc=%s): %s" % (solver, rc, "\n".join(msgs[-5:])[-800:])
                continue
            for pat in BAD_LOG:
                if re.search(pat, "\n".join(msgs)):
                    raise Undecided("log contains '%s'" % pat)
            if re.search(r"ignoring infinity", "\n".join(msgs)):
                res["warnings"] = ["cbmc: ignoring infinity (over-approximation of the is_fresh map)"]
            res["solver"] = solver
            res["solver_s"] = round(secs, 2)
            out = _judge(job, res, results, alltxt, t0)
            if out["outcome"] == "FAILED":
                # second pass: counterexample trace for the first failed obligations only
                # (a full --trace run formats whole symbolic-size arrays and can exhaust memory)
                for f in out["failed"][:2]:
                    tp = os.path.join(wd, "trace.json")
                    tcmd = cmd + ["--json-ui", "--trace", "--property", f["obligation"]]
                    rc2, _t, _s = run(tcmd, min(job.timeout, 900), wd, env=env, stdout_path=tp, mem_gb=job.mem_gb)
                    try:
                        r2, _m, _st = parse_cbmc(tp)
                        for r in r2 or []:
                            if r["property"] == f["obligation"] and r.get("trace"):
                                f["inputs"] = trace_inputs(r["trace"], job.entry)
                    except Undecided:
                        pass
            return out
        raise Undecided(last or "no solver configured")
    except Undecided as u:
        res["outcome"] = "UNDECIDED"
        res["reason"] = str(u)
        res["wall_s"] = round(time.time() - t0, 2)
        return res
    finally:
        if not os.environ.get("VERIF_KEEP"):
            shutil.rmtree(wd, ignore_errors=True)


_ledger = None


def ledger():
    """obligation counts per job recorded on the pinned tree (baseline/ledger.json)"""
    global _ledger
    if _ledger is None:
        p = os.path.join(VERIF, "baseline", "ledger.json")
        _ledger = json.load(open(p)) if os.path.exists(p) else {}
    return _ledger


def _judge(job, res, results, alltxt, t0):
    classes = {}
    failed, canary_ok = [], False
    sites = {}
    for r in results:
        c = classify(r["property"], r.get("description", ""))
        classes[c] = classes.get(c, 0) + 1
        # a site = (function, line, text) of a contract clause: goto-instrument may instantiate one clause several times
        # (one copy per back edge of a loop whose condition holds a replaced call), and how many copies it makes
        # depends on its internal symbol ordering, which changes with the scratch directory path
        sites.setdefault(c, set()).add((r["property"].split(".")[0], (r.get("sourceLocation") or {}).get("line"),
                                        r.get("description", "")))
        if c == "canary":
            if r["status"] == "FAILURE":
                canary_ok = True
            continue
        if r["status"] != "SUCCESS":
            failed.append({"obligation": r["property"], "description": r.get("description", ""),
                           "class": c, "status": r["status"],
                           "location": r.get("sourceLocation", {}),
                           "inputs": trace_inputs(r.get("trace"), job.entry)})
    n = sum(v for k, v in classes.items() if k != "canary")
    res["obligations"] = n
    res["classes"] = classes
    res["sites"] = {c: len(v) for c, v in sites.items() if c in LEDGER_CLASSES}
    res["wall_s"] = round(time.time() - t0, 2)
    res["samples"] = [r["property"] + ": " + r.get("description", "") for r in results
                      if classify(r["property"], r.get("description", "")) in
                      ("postcondition", "assigns", "loop_invariant", "assertion")][:4]
    unknown = [f for f in failed if f["status"] == "UNKNOWN"]
    failed = [f for f in failed if f["status"] != "UNKNOWN"]
    if unknown and not failed:
        res["outcome"] = "UNDECIDED"
        res["reason"] = "%d obligations left UNKNOWN by cbmc, e.g. %s" % (len(unknown), unknown[0]["obligation"])
        return res
    res["unknown"] = len(unknown)
    unwind_fail = [f for f in failed if f["class"] == "unwind"]
    if unwind_fail and len(unwind_fail) < len(failed) and job.mode != "M3":
        # an out-of-bounds access can drag instrumentation-internal loops along;
        # the real failures decide
        failed = [f for f in failed if f["class"] != "unwind"]
        unwind_fail = []
    if unwind_fail:
        res["outcome"] = "UNDECIDED"
        res["reason"] = "unwinding assertion failed (bound too small): " + unwind_fail[0]["obligation"]
        return res
    if "canary" not in classes:
        res["outcome"] = "UNDECIDED"
        res["reason"] = "no canary obligation in harness"
        return res
    if not canary_ok:
        res["outcome"] = "UNDECIDED"
        res["reason"] = "canary unreachable: contradictory preconditions (vacuous proof)"
        return res
    led = ledger().get(job.name)
    if led:
        # compared per class on distinct clause sites, not on raw obligation counts: the raw count of one and the same
        # instrumentation differs between runs (see above) and a raw comparison raised false UNDECIDEDs on the unchanged tree.
        # Ledger entries recorded before sites were kept (no "_sites") only say which classes must be present.
        lsites = led.get("_sites")
        for c in LEDGER_CLASSES:
            have = res["sites"].get(c, 0)
            want = lsites.get(c, 0) if lsites is not None else min(1, led.get(c, 0))
            if have < want:
                res["outcome"] = "UNDECIDED"
                res["reason"] = "obligations vanished: %d distinct '%s' clause sites generated, ledger of the pinned tree has %d" % (
                    have, c, want)
                return res
        if n * 2 < led.get("_total", 0):
            res["outcome"] = "UNDECIDED"
            res["reason"] = "only %d obligations generated, ledger has %d" % (n, led.get("_total", 0))
            return res
    if job.mode == "M2" and job.weave and classes.get("loop_invariant", 0) < 2:
        res["outcome"] = "UNDECIDED"
        res["reason"] = "loop contract was not applied (no loop-invariant obligations)"
        return res
    if job.enforce and classes.get("postcondition", 0) < 1:
        res["outcome"] = "UNDECIDED"
        res["reason"] = "contract of %s was not enforced (no postcondition obligation)" % job.enforce
        return res
    contractual = sum(classes.get(c, 0) for c in ("postcondition", "assertion", "assigns", "loop_invariant"))
    if contractual < job.min_post:
        res["outcome"] = "UNDECIDED"
        res["reason"] = "only %d contract obligations generated (< %d): contract not applied?" % (contractual, job.min_post)
        return res
    if failed:
        res["outcome"] = "FAILED"
        res["failed"] = failed
        res["discharged"] = n - len(failed)
    else:
        res["outcome"] = "PROVED"
        res["discharged"] = n
    return res
