#!/bin/bash
# builds /repo (no verification defines) into a scratch dir and runs the 13 pinned ctest tests
set -e
B=$(mktemp -d /tmp/varint-baseline.XXXXXX)
trap 'rm -rf "$B"' EXIT
cmake -G Ninja -S /repo -B "$B" >/dev/null
cmake --build "$B" >/dev/null
ctest --test-dir "$B" -j8 --timeout 900
